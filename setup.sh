#!/bin/sh
# Build the engine offline (x/tools v0.29.0 from the module cache, default go).
set -e
cd "$(dirname "$0")"
export GOFLAGS=-mod=mod GOPROXY=off GOSUMDB=off GOTOOLCHAIN=local CGO_ENABLED=0
mkdir -p bin out evidence
(cd engine && go build -o ../bin/gosmt .)
echo "gosmt built: $(ls -la bin/gosmt | awk '{print $5}') bytes"

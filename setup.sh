#!/bin/sh
# placeholder: built out as the engine lands
exit 0

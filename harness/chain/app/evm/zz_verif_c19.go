package evm

// C19 — transaction pool. Bounded histories of submissions and state advances on the real
// ethTxPool / txSortedMap; sender recovery and the state nonce are seams.

import (
	"github.com/dappledger/AnnChain/eth/common"
	estate "github.com/dappledger/AnnChain/eth/core/state"
	etypes "github.com/dappledger/AnnChain/eth/core/types"
	"github.com/dappledger/AnnChain/eth/ethdb"
	"github.com/dappledger/AnnChain/gemmill/modules/go-clist"
	gtypes "github.com/dappledger/AnnChain/gemmill/types"

	"math/big"
	"time"
)

// sender = the account named by the first payload byte (signature recovery is a seam)
type vC19Signer struct{}

func (vC19Signer) Sender(tx *etypes.Transaction) (common.Address, error) {
	return vC19Addr(int(tx.Data()[0])), nil
}
func (vC19Signer) SignatureValues(tx *etypes.Transaction, sig []byte) (r, s, v *big.Int, err error) {
	return nil, nil, nil, nil
}
func (vC19Signer) Hash(tx *etypes.Transaction) common.Hash { return common.Hash{} }
func (vC19Signer) Equal(s etypes.Signer) bool              { _, ok := s.(vC19Signer); return ok }

func vC19Addr(a int) common.Address {
	var ad common.Address
	ad[19] = byte(a)
	return ad
}

// ghost account nonces: under the engine (*StateDB).GetNonce is redirected to vC19GetNonce,
// natively the same values are written into a real in-memory StateDB.
var vC19Nonces [4]uint64

func vC19GetNonce(st *estate.StateDB, addr common.Address) uint64 { return vC19Nonces[int(addr[19])&3] }

func vC19SetNonce(app *EVMApp, a int, n uint64) {
	vC19Nonces[a] = n
	if !vSymbolic() {
		app.state.SetNonce(vC19Addr(a), n)
	}
}

func vC19Pool(limit int) (*ethTxPool, *EVMApp) {
	app := &EVMApp{Signer: vC19Signer{}}
	if !vSymbolic() {
		st, err := estate.New(common.Hash{}, estate.NewDatabase(ethdb.NewMemDatabase()))
		if err != nil {
			panic(err)
		}
		app.state = st
	}
	tp := &ethTxPool{
		all:             make(map[common.Hash]gtypes.Tx),
		waiting:         make(map[common.Address]*txSortedMap),
		waitingBeats:    make(map[common.Address]time.Time),
		pending:         make(map[common.Address]*txSortedMap),
		extTxs:          clist.New(),
		broadcastQueue:  clist.New(),
		waitingLimit:    limit,
		pendingLimit:    limit,
		waitingLifeTime: waitingLifeTime,
		app:             app,
	}
	return tp, app
}

type vC19Tx struct {
	acct  int
	nonce uint64
	tx    *etypes.Transaction
	raw   []byte
}

func vC19Count(m map[common.Address]*txSortedMap) int {
	n := 0
	for _, s := range m {
		n += s.Len()
	}
	return n
}

// the invariants of the property, checked after every operation
func vC19Check(tp *ethTxPool, accepted []vC19Tx, limit int) {
	vAssert(vC19Count(tp.pending) <= limit, "pending-within-limit")
	vAssert(vC19Count(tp.waiting) <= limit, "waiting-within-limit")
	inPool := 0
	for a := 1; a <= 2; a++ {
		addr := vC19Addr(a)
		st := vC19Nonces[a]
		if p := tp.pending[addr]; p != nil {
			txs := p.Flatten()
			vAssert(len(txs) > 0, "no-empty-pending-entry")
			for i, tx := range txs {
				vAssert(tx.Nonce() == st+uint64(i), "pending-consecutive-from-state-nonce")
				_, known := tp.all[tx.Hash()]
				vAssert(known, "pending-tx-in-lookup")
				vAssert(int(tx.Data()[0]) == a, "pending-tx-under-its-sender")
			}
			inPool += len(txs)
			// heap and map agree
			vAssert(p.index.Len() == len(p.items), "pending-heap-matches-items")
		}
		if w := tp.waiting[addr]; w != nil {
			txs := w.Flatten()
			vAssert(len(txs) > 0, "no-empty-waiting-entry")
			for i, tx := range txs {
				if i > 0 {
					vAssert(txs[i-1].Nonce() < tx.Nonce(), "waiting-sorted-no-duplicate-nonce")
				}
				if p := tp.pending[addr]; p != nil {
					vAssert(p.Get(tx.Nonce()) == nil, "no-nonce-in-both-queues")
				}
				_, known := tp.all[tx.Hash()]
				vAssert(known, "waiting-tx-in-lookup")
			}
			inPool += len(txs)
			vAssert(w.index.Len() == len(w.items), "waiting-heap-matches-items")
		}
	}
	vAssert(len(tp.all) == inPool, "lookup-holds-exactly-the-pooled-txs")
	// the eviction timer looks every account with a heartbeat up in the waiting queue without a nil check
	for addr := range tp.waitingBeats {
		vAssert(tp.waiting[addr] != nil, "heartbeat-only-for-accounts-with-waiting-txs")
	}
}

func VerifHarness_C19_pool_history() {
	k := vParam("K", 3)
	limit := vParam("LIMIT", 2)
	tp, app := vC19Pool(limit)
	vC19SetNonce(app, 1, uint64(vNondetRange("nonce0.a1", 0, 1)))
	vC19SetNonce(app, 2, 0)
	var accepted []vC19Tx
	id := byte(0)
	for step := 0; step < k; step++ {
		switch vNondetLen("op", 0, 2) {
		case 0, 1: // submit a transaction (op 1: resubmit the most recent one when there is one)
			acct := vNondetLen("tx.acct", 1, 2)
			nonce := uint64(vNondetRange("tx.nonce", 0, 4))
			id++
			t := vC19Tx{acct: acct, nonce: nonce, raw: []byte{byte(acct), id}}
			t.tx = etypes.NewTransaction(nonce, common.Address{}, nil, 0, nil, []byte{byte(acct), id})
			pre := vC19Nonces[acct]
			err := tp.CheckAndAdd(t.tx, t.raw)
			if err == nil {
				vReach("accepted")
				vAssert(nonce >= pre, "accepted-tx-not-below-state-nonce")
				accepted = append(accepted, t)
				// an exact duplicate is refused
				err2 := tp.CheckAndAdd(t.tx, t.raw)
				vAssert(err2 == errTxExist, "exact-duplicate-refused")
			} else {
				vReach("refused")
			}
		case 2: // the chain advances: account nonce moves forward, the pool is told
			acct := vNondetLen("adv.acct", 1, 2)
			vC19SetNonce(app, acct, vC19Nonces[acct]+uint64(vNondetLen("adv.by", 1, 2)))
			tp.updateToState()
			vReach("advanced")
			// nothing executable is left waiting: the tx at the state nonce, if pooled, is pending
			for a := 1; a <= 2; a++ {
				if w := tp.waiting[vC19Addr(a)]; w != nil && vC19Count(tp.pending) < limit {
					vAssert(w.Get(vC19Nonces[a]) == nil, "executable-tx-promoted")
				}
			}
		}
		vC19Check(tp, accepted, limit)
	}
	// what the proposer reaps: per account strictly consecutive nonces from the state nonce
	reaped := tp.Reap(-1)
	var next [3]uint64
	next[1], next[2] = vC19Nonces[1], vC19Nonces[2]
	vAssert(len(reaped) <= limit, "reap-bounded")
	for _, raw := range reaped {
		a := int(raw[0])
		found := false
		for _, t := range accepted {
			if t.raw[1] == raw[1] {
				found = true
				vAssert(t.nonce == next[a], "reaped-in-nonce-order-without-gaps")
				next[a]++
			}
		}
		vAssert(found, "reaped-tx-was-submitted")
	}
	vReach("reaped")
}

// txSortedMap kernel: Forward(n) then ReadyN(n, c) returns the maximal consecutive run from n.
func VerifHarness_C19_sortedmap_ready() {
	m := newTxSortedMap()
	cnt := vNondetLen("count", 0, vParam("M", 3))
	for i := 0; i < cnt; i++ {
		nonce := uint64(vNondetRange("nonce", 0, 5))
		tx := etypes.NewTransaction(nonce, common.Address{}, nil, 0, nil, []byte{1, byte(i)})
		m.Add(tx) // duplicates by nonce are refused
	}
	had := make([]bool, 8)
	for n := range m.items {
		had[n] = true
	}
	total := m.Len()
	start := uint64(vNondetRange("start", 0, 5))
	c := vNondetLen("cap", 0, 3)
	dropped := m.Forward(start)
	for _, tx := range dropped {
		vAssert(tx.Nonce() < start, "forward-drops-only-lower-nonces")
	}
	ready := m.ReadyN(start, c)
	run := 0
	for n := start; n < 8 && had[n]; n++ {
		run++
	}
	want := run
	if c < want {
		want = c
	}
	vAssert(len(ready) == want, "ready-is-maximal-run-capped")
	for i, tx := range ready {
		vAssert(tx.Nonce() == start+uint64(i), "ready-consecutive-from-start")
	}
	vAssert(m.Len() == total-len(dropped)-len(ready), "nothing-else-removed")
	vAssert(m.index.Len() == len(m.items), "heap-matches-items")
	vReach("ready-done")
}

// the nonce index of a txSortedMap is a min-heap holding exactly the nonces of its items
func vC19HeapOK(m *txSortedMap) bool {
	idx := *m.index
	if len(idx) != len(m.items) {
		return false
	}
	for i := 1; i < len(idx); i++ {
		if idx[(i-1)/2] > idx[i] {
			return false
		}
	}
	for _, n := range idx {
		if m.items[n] == nil {
			return false
		}
	}
	return true
}

// txSortedMap.Remove of any nonce (present or not, leaf of the heap or not) keeps the index a heap,
// so that what is executable afterwards is still found: Forward / ReadyN after the removal return
// exactly the maximal consecutive run.
func VerifHarness_C19_sortedmap_remove() {
	m := newTxSortedMap()
	cnt := vNondetLen("count", 4, vParam("M", 5))
	had := make([]bool, 10)
	// every insertion order of cnt distinct nonces out of 0..5 (concrete choices: the heap shapes matter)
	for i := 0; i < cnt; i++ {
		nonce := uint64(vNondetLen("nonce", 0, 5))
		vAssume(!had[nonce])
		had[nonce] = true
		m.Add(etypes.NewTransaction(nonce, common.Address{}, nil, 0, nil, []byte{1, byte(i)}))
	}
	vAssert(vC19HeapOK(m), "index-is-a-heap-after-inserts")
	r := uint64(vNondetLen("remove", 0, 6))
	was := m.Get(r) != nil
	removed := m.Remove(r)
	vAssert(removed == was, "remove-reports-presence")
	had[r] = false
	vReach("removed-one")
	vAssert(m.Get(r) == nil && m.Len() == len(m.items), "removed-nonce-is-gone")
	vAssert(vC19HeapOK(m), "index-is-a-heap-after-remove")
	// what is executable from the lowest remaining nonce on is still found
	start := uint64(0)
	for start < 9 && !had[start] {
		start++
	}
	m.Forward(start)
	ready := m.ReadyN(start, 8)
	run := 0
	for n := start; n < 10 && had[n]; n++ {
		run++
	}
	vAssert(len(ready) == run, "ready-after-remove-is-the-maximal-run")
	vAssert(vC19HeapOK(m), "index-is-a-heap-after-ready")
}

func vC19CheckN(tp *ethTxPool, limit int, accts int) {
	vAssert(vC19Count(tp.pending) <= limit, "pending-within-limit")
	vAssert(vC19Count(tp.waiting) <= limit, "waiting-within-limit")
	inPool := 0
	for a := 1; a <= accts; a++ {
		addr := vC19Addr(a)
		st := vC19Nonces[a]
		if p := tp.pending[addr]; p != nil {
			txs := p.Flatten()
			vAssert(len(txs) > 0, "no-empty-pending-entry")
			for i, tx := range txs {
				vAssert(tx.Nonce() == st+uint64(i), "pending-consecutive-from-state-nonce")
				_, known := tp.all[tx.Hash()]
				vAssert(known, "pending-tx-in-lookup")
			}
			inPool += len(txs)
		}
		if w := tp.waiting[addr]; w != nil {
			txs := w.Flatten()
			vAssert(len(txs) > 0, "no-empty-waiting-entry")
			for _, tx := range txs {
				if p := tp.pending[addr]; p != nil {
					vAssert(p.Get(tx.Nonce()) == nil, "no-nonce-in-both-queues")
				}
				_, known := tp.all[tx.Hash()]
				vAssert(known, "waiting-tx-in-lookup")
			}
			inPool += len(txs)
		}
	}
	vAssert(len(tp.all) == inPool, "lookup-holds-exactly-the-pooled-txs")
}

// One commit step from an ARBITRARY consistent pool (three accounts): the chain advances some
// account nonces and the pool is updated (demoteUnexecutables + promoteExecutables over all accounts).
func VerifHarness_C19_commit_step() {
	limit := vParam("LIMIT", 3)
	tp, app := vC19Pool(limit)
	id := byte(0)
	mk := func(a int, nonce uint64) *etypes.Transaction {
		id++
		tx := etypes.NewTransaction(nonce, common.Address{}, nil, 0, nil, []byte{byte(a), id})
		tp.all[tx.Hash()] = []byte{byte(a), id}
		return tx
	}
	for a := 1; a <= 3; a++ {
		st := uint64(0)
		vC19SetNonce(app, a, st)
		pl := vNondetLen("pendinglen", 0, 2)
		if pl > 0 {
			tp.pending[vC19Addr(a)] = newTxSortedMap()
			for i := 0; i < pl; i++ {
				tp.pending[vC19Addr(a)].Put(mk(a, st+uint64(i)))
			}
		}
		if wl := vNondetLen("waitinglen", 0, 2); wl > 0 {
			wn := st + uint64(pl) + uint64(vNondetLen("waitgap", 0, 1))
			tp.waiting[vC19Addr(a)] = newTxSortedMap()
			tp.waiting[vC19Addr(a)].Put(mk(a, wn))
			if wl > 1 {
				tp.waiting[vC19Addr(a)].Put(mk(a, wn+1+uint64(vNondetLen("waitgap2", 0, 1))))
			}
			tp.waitingBeats[vC19Addr(a)] = time.Time{}
		}
	}
	vAssume(vC19Count(tp.pending) <= limit && vC19Count(tp.waiting) <= limit)
	// a tx that is executable may sit in waiting only because pending was full when it arrived;
	// the pre-state is otherwise arbitrary
	for a := 1; a <= 3; a++ {
		vC19SetNonce(app, a, vC19Nonces[a]+uint64(vNondetLen("advance", 0, 1)))
	}
	tp.updateToState()
	vReach("updated")
	vC19CheckN(tp, limit, 3)
}

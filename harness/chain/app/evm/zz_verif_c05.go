package evm

// C05 — replicated execution is deterministic: what a block yields (valid/invalid lists, receipts
// hash, app hash) depends only on the chain, not on how long the process has been running.
// The same block h is executed and committed by a replica that has been running since block h-1
// and by one restarted from the durable state after h-1: real OnExecute / OnCommit on both.

import (
	"bytes"
	"math/big"

	"github.com/dappledger/AnnChain/eth/common"
	estate "github.com/dappledger/AnnChain/eth/core/state"
	etypes "github.com/dappledger/AnnChain/eth/core/types"
	"github.com/dappledger/AnnChain/eth/ethdb"
	"github.com/dappledger/AnnChain/eth/params"
	"github.com/dappledger/AnnChain/eth/rlp"
	rtypes "github.com/dappledger/AnnChain/chain/types"
	dbm "github.com/dappledger/AnnChain/gemmill/modules/go-db"
	"github.com/dappledger/AnnChain/gemmill/modules/go-clist"
	gtypes "github.com/dappledger/AnnChain/gemmill/types"

	"time"
)

type vC05Disk struct {
	state ethdb.Database
	app   dbm.DB
	hist  ethdb.Database
}

func vC05NewDisk() *vC05Disk {
	return &vC05Disk{state: ethdb.NewMemDatabase(), app: dbm.NewMemDB(), hist: ethdb.NewMemDatabase()}
}

// a process: all volatile fields start from zero, durable state comes from the disk
func vC05Start(d *vC05Disk) *EVMApp {
	app := &EVMApp{Signer: etypes.FrontierSigner{}, stateDb: d.state, chainConfig: params.MainnetChainConfig,
		keyValueHistoryManager: NewKeyValueHistoryManager(d.hist)}
	app.Database = d.app
	app.InitializedState = true
	st, err := estate.New(app.getLastAppHash(), estate.NewDatabase(d.state))
	if err != nil {
		panic(err)
	}
	app.state = st
	app.pool = &ethTxPool{all: make(map[common.Hash]gtypes.Tx), waiting: make(map[common.Address]*txSortedMap),
		waitingBeats: make(map[common.Address]time.Time), pending: make(map[common.Address]*txSortedMap),
		extTxs: clist.New(), broadcastQueue: clist.New(), waitingLimit: 10, pendingLimit: 10, app: app}
	return app
}

// a signed key-value transaction as raw block bytes
func vC05KVTx(nonce uint64, key, val byte) []byte {
	kv := &rtypes.KV{Key: []byte{'k', key}, Value: []byte{val}}
	tx := vC09Sign(etypes.NewTransaction(nonce, common.Address{}, nil, 0, nil, vC09KVPayload(kv, true)))
	if vSymbolic() {
		raw := vNondetBytes("rawtx", 2)
		vJSONBind(raw, tx) // rlp.DecodeBytes(raw) yields this transaction
		return raw
	}
	raw, err := rlp.EncodeToBytes(tx)
	if err != nil {
		panic(err)
	}
	return raw
}

func vC05Block(height int64, txs [][]byte) *gtypes.Block {
	b := &gtypes.Block{Header: &gtypes.Header{ChainID: "c", Height: height, ValidatorsHash: []byte{1}}, Data: &gtypes.Data{}, LastCommit: &gtypes.Commit{}}
	for _, t := range txs {
		b.Data.Txs = append(b.Data.Txs, gtypes.Tx(t))
	}
	return b
}

func vC05Run(app *EVMApp, b *gtypes.Block) (gtypes.ExecuteResult, gtypes.CommitResult) {
	r, err := app.OnExecute(b.Height, 0, b)
	if err != nil {
		panic(err)
	}
	c, err := app.OnCommit(b.Height, 0, b)
	if err != nil {
		panic(err)
	}
	return r.(gtypes.ExecuteResult), c.(gtypes.CommitResult)
}

func VerifHarness_C05_restart_equivalence() {
	vC09App() // sets up the signing key / sender
	k1 := vNondetLen("kv-in-block-1", 0, 2)
	k2 := vNondetLen("kv-in-block-2", 0, 1)
	mkBlocks := func() (*gtypes.Block, *gtypes.Block) {
		var t1, t2 [][]byte
		for i := 0; i < k1; i++ {
			t1 = append(t1, vC05KVTx(uint64(i), byte(i), 7))
		}
		n2 := uint64(k1)
		if vSymbolic() {
			n2 = 0 // state commit is stubbed under the engine: every block starts from the empty state
		}
		for i := 0; i < k2; i++ {
			t2 = append(t2, vC05KVTx(n2+uint64(i), byte(10+i), 9))
		}
		return vC05Block(1, t1), vC05Block(2, t2)
	}
	// replica L runs through both blocks in one process
	dl := vC05NewDisk()
	b1, b2 := mkBlocks()
	L := vC05Start(dl)
	r1, _ := vC05Run(L, b1)
	vAssert(len(r1.ValidTxs) == k1 && len(r1.InvalidTxs) == 0, "block-1-executes")
	if vNondetBool("volatile-drift") {
		// whatever sits in the process's volatile copy of the last state must not matter: execution
		// rebuilds its state from the durable app hash (the mechanism the property names)
		L.state.SetNonce(vC09From, 50)
	}
	rl, cl := vC05Run(L, b2)
	// replica R executes block 1, is restarted, and executes block 2 in a fresh process
	dr := vC05NewDisk()
	c1, c2 := mkBlocks()
	X := vC05Start(dr)
	vC05Run(X, c1)
	R := vC05Start(dr) // restart: volatile state gone, durable state kept
	rr, cr := vC05Run(R, c2)
	vReach("both-executed")
	vAssert(len(rl.ValidTxs) == len(rr.ValidTxs) && len(rl.InvalidTxs) == len(rr.InvalidTxs), "same-valid-invalid-split")
	vAssert(len(rl.ValidTxs) == k2, "block-2-executes")
	vAssert(bytes.Equal(cl.ReceiptsHash, cr.ReceiptsHash), "receipts-hash-independent-of-process-lifetime")
	vAssert(bytes.Equal(cl.AppHash, cr.AppHash), "app-hash-independent-of-process-lifetime")
	// nothing of block 2 leaks into the next block's accumulators
	vAssert(len(L.receipts) == 0 && len(L.kvs) == 0 && len(L.keyValueHistories) == 0, "per-block-accumulators-empty-after-commit")
}


// vC05KVTxSig: like vC05KVTx, optionally with an unrecoverable signature
func vC05KVTxSig(nonce uint64, key, val byte, badsig bool) []byte {
	kv := &rtypes.KV{Key: []byte{'k', key}, Value: []byte{val}}
	tx := etypes.NewTransaction(nonce, common.Address{}, nil, 0, nil, vC09KVPayload(kv, true))
	if badsig {
		tx = vC09BadSig(tx)
	} else {
		tx = vC09Sign(tx)
	}
	if vSymbolic() {
		raw := vNondetBytes("rawtx", 2)
		vJSONBind(raw, tx)
		return raw
	}
	raw, err := rlp.EncodeToBytes(tx)
	if err != nil {
		panic(err)
	}
	return raw
}

// What a block yields must not depend on how many signature-checking workers a replica runs
// (the default is the machine's CPU count, which differs between replicas): the same block with
// 0..2 key-value transactions, any one of them carrying an unrecoverable signature, is executed
// by two fresh replicas configured with 1 worker and with W workers.
func VerifHarness_C05_worker_count_independence() {
	vC09App()
	k := vNondetLen("txs", 0, 2)
	bad := vNondetLen("unsigned", -1, k-1)
	w := vNondetLen("workers", 2, 16)
	mk := func() *gtypes.Block {
		var txs [][]byte
		n := uint64(0)
		for i := 0; i < k; i++ {
			txs = append(txs, vC05KVTxSig(n, byte(i), 7, i == bad))
			if i != bad {
				n++
			}
		}
		return vC05Block(1, txs)
	}
	saved := validateRoutineCount
	validateRoutineCount = 1
	A := vC05Start(vC05NewDisk())
	ra, ca := vC05Run(A, mk())
	validateRoutineCount = w
	B := vC05Start(vC05NewDisk())
	rb, cb := vC05Run(B, mk())
	validateRoutineCount = saved
	vReach("both-executed")
	want := k
	if bad >= 0 {
		want--
		vReach("one-unrecoverable-signature")
	}
	vAssert(len(ra.ValidTxs) == len(rb.ValidTxs) && len(ra.InvalidTxs) == len(rb.InvalidTxs), "same-valid-invalid-split-for-any-worker-count")
	vAssert(len(ra.ValidTxs) == want && len(rb.ValidTxs) == want, "unrecoverable-signature-is-invalid-recoverable-ones-valid")
	vAssert(bytes.Equal(ca.ReceiptsHash, cb.ReceiptsHash), "receipts-hash-independent-of-worker-count")
	vAssert(bytes.Equal(ca.AppHash, cb.AppHash), "app-hash-independent-of-worker-count")
}

// What a block yields must not depend on Go's randomised map iteration order: the same block with
// two key-value transactions on distinct keys is executed by two fresh replicas. Under the engine
// every map range inside the application's methods starts at an arbitrary entry (explored choice,
// independently per replica); natively the comparison is repeated, the runtime randomises by itself.
func VerifHarness_C05_map_order_independence() {
	vC09App()
	mk := func() *gtypes.Block {
		return vC05Block(1, [][]byte{vC05KVTxSig(0, 1, 7, false), vC05KVTxSig(1, 2, 9, false), vC05KVTxSig(2, 3, 5, false)})
	}
	reps := 1
	if !vSymbolic() {
		reps = 24
	}
	A := vC05Start(vC05NewDisk())
	ra, ca := vC05Run(A, mk())
	vAssert(len(ra.ValidTxs) == 3, "block-executes")
	for i := 0; i < reps; i++ {
		B := vC05Start(vC05NewDisk())
		rb, cb := vC05Run(B, mk())
		vAssert(len(rb.ValidTxs) == len(ra.ValidTxs) && len(rb.InvalidTxs) == len(ra.InvalidTxs), "same-valid-invalid-split-for-any-map-order")
		vAssert(bytes.Equal(ca.ReceiptsHash, cb.ReceiptsHash), "receipts-hash-independent-of-map-iteration-order")
		vAssert(bytes.Equal(ca.AppHash, cb.AppHash), "app-hash-independent-of-map-iteration-order")
	}
	vReach("replicas-compared")
}

// What a contract can read about the chain (BLOCKHASH of older blocks, block number, time, coinbase)
// must not depend on how long the process has been running: blocks 1 and 2 are empty, block 3
// creates a contract whose init code logs BLOCKHASH(NUMBER-2), NUMBER, TIMESTAMP and COINBASE; one
// replica executes all three in one process, the other is restarted before block 3.
func VerifHarness_C05_chain_context_restart() {
	vC09App()
	init := []byte{
		0x60, 0x02, 0x43, 0x03, 0x40, 0x60, 0x00, 0x52, // mem[0]  = BLOCKHASH(NUMBER-2)
		0x43, 0x60, 0x20, 0x52, // mem[32] = NUMBER
		0x42, 0x60, 0x40, 0x52, // mem[64] = TIMESTAMP
		0x41, 0x60, 0x60, 0x52, // mem[96] = COINBASE
		0x60, 0x80, 0x60, 0x00, 0xa0, 0x00, // LOG0(0, 128); STOP
	}
	// (one and the same raw transaction goes into both replicas' block 3: the block hash is part of what
	// the receipts record)
	tx := vC09Sign(etypes.NewContractCreation(0, big.NewInt(0), 300000, big.NewInt(0), init))
	var raw []byte
	if vSymbolic() {
		raw = vNondetBytes("rawtx", 2)
		vJSONBind(raw, tx)
	} else {
		var err error
		if raw, err = rlp.EncodeToBytes(tx); err != nil {
			panic(err)
		}
	}
	mk3 := func() *gtypes.Block { return vC05Block(3, [][]byte{raw}) }
	dl := vC05NewDisk()
	L := vC05Start(dl)
	vC05Run(L, vC05Block(1, nil))
	vC05Run(L, vC05Block(2, nil))
	rl, cl := vC05Run(L, mk3())
	dr := vC05NewDisk()
	X := vC05Start(dr)
	vC05Run(X, vC05Block(1, nil))
	vC05Run(X, vC05Block(2, nil))
	R := vC05Start(dr) // restart
	rr, cr := vC05Run(R, mk3())
	vReach("both-executed")
	vAssert(len(rl.ValidTxs) == 1 && len(rr.ValidTxs) == 1, "contract-creation-executes")
	vAssert(bytes.Equal(cl.ReceiptsHash, cr.ReceiptsHash), "chain-context-seen-by-contracts-independent-of-process-lifetime")
	vAssert(bytes.Equal(cl.AppHash, cr.AppHash), "app-hash-independent-of-process-lifetime")
}

package evm

// C19 (non-EVM transactions) — the pool's queue of admin operations and its broadcast list:
// every history of K operations (submit one of T distinct operations | a block commits any subset
// of them), compared after every step with a ghost FIFO queue.

import (
	gtypes "github.com/dappledger/AnnChain/gemmill/types"
)

func vC19AdminTx(t int) gtypes.Tx { return append(append([]byte{}, gtypes.AdminTag...), byte(t)) }

func vC19Has(q []int, t int) bool {
	for _, x := range q {
		if x == t {
			return true
		}
	}
	return false
}

func vC19Without(q []int, gone []bool) []int {
	var r []int
	for _, x := range q {
		if !gone[x] {
			r = append(r, x)
		}
	}
	return r
}

func vC19AdminCheck(tp *ethTxPool, queue, bcast []int) {
	var got []int
	for e := tp.extTxs.Front(); e != nil && len(got) <= 8; e = e.Next() {
		tx := e.Value.(gtypes.Tx)
		got = append(got, int(tx[len(tx)-1]))
	}
	same := len(got) == len(queue)
	for i := 0; same && i < len(got); i++ {
		same = got[i] == queue[i]
	}
	vAssert(same, "admin-queue-holds-exactly-the-uncommitted-submissions-in-order")
	vAssert(tp.extTxs.Len() == len(queue), "admin-queue-length-consistent")
	vAssert(tp.Size() == len(queue), "pool-size-counts-queued-admin-ops")
	var gotB []int
	for e := tp.broadcastQueue.Front(); e != nil && len(gotB) <= 8; e = e.Next() {
		m := e.Value.(*gtypes.TxInPool)
		gotB = append(gotB, int(m.Tx[len(m.Tx)-1]))
	}
	sameB := len(gotB) == len(bcast)
	for i := 0; sameB && i < len(gotB); i++ {
		sameB = gotB[i] == bcast[i]
	}
	vAssert(sameB, "broadcast-list-holds-exactly-the-uncommitted-submissions-in-order")
	vAssert(tp.broadcastQueue.Len() == len(bcast), "broadcast-list-length-consistent")
}

func VerifHarness_C19_adminop_queue() {
	limit := vParam("LIMIT", 2)
	K := vParam("K", 3)
	const T = 3
	tp, _ := vC19Pool(limit)
	var queue, bcast []int
	for k := 0; k < K; k++ {
		if vNondetBool("submit") {
			t := vNondetLen("tag", 1, T)
			err := tp.ReceiveTx(vC19AdminTx(t))
			if vC19Has(queue, t) {
				vAssert(err == errTxExist, "queued-admin-op-refused-as-duplicate")
			} else {
				vAssert(err == nil, "new-admin-op-accepted")
				if len(queue) >= limit {
					queue = queue[1:] // the oldest one makes room
				}
				queue = append(queue, t)
				if len(bcast) >= 2*limit {
					bcast = bcast[1:]
				}
				bcast = append(bcast, t)
				vReach("submitted")
			}
		} else {
			gone := make([]bool, T+1)
			var txs []gtypes.Tx
			for t := 1; t <= T; t++ {
				if vNondetBool("in-block") {
					gone[t] = true
					txs = append(txs, vC19AdminTx(t))
				}
			}
			tp.Update(int64(k+1), txs)
			queue, bcast = vC19Without(queue, gone), vC19Without(bcast, gone)
			if len(txs) >= 2 {
				vReach("block-with-several-admin-ops")
			}
		}
		vC19AdminCheck(tp, queue, bcast)
	}
	max := vNondetLen("max", -1, 3)
	reaped := tp.Reap(max)
	want := max
	if max < 0 {
		want = limit
	}
	if want > len(queue) {
		want = len(queue)
	}
	vAssert(len(reaped) == want, "reap-offers-queued-admin-ops-up-to-max")
	for i := 0; i < len(reaped) && i < want; i++ {
		vAssert(int(reaped[i][len(reaped[i])-1]) == queue[i], "reap-offers-uncommitted-admin-ops-in-order")
	}
	vReach("reaped")
}

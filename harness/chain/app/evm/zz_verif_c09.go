package evm

// C09 — transaction execution is total, atomic and replay-protected: the real exec/end closures
// of genExecFun over a real in-memory StateDB, one transaction of an arbitrary class.

import (
	"crypto/ecdsa"
	"math/big"

	"github.com/dappledger/AnnChain/eth/crypto"

	"github.com/dappledger/AnnChain/eth/common"
	estate "github.com/dappledger/AnnChain/eth/core/state"
	etypes "github.com/dappledger/AnnChain/eth/core/types"
	"github.com/dappledger/AnnChain/eth/ethdb"
	"github.com/dappledger/AnnChain/eth/params"
	"github.com/dappledger/AnnChain/eth/rlp"
	rtypes "github.com/dappledger/AnnChain/chain/types"
	gtypes "github.com/dappledger/AnnChain/gemmill/types"
)

// The sender: natively a real secp256k1 key (transactions are really signed and recovered);
// under the engine signature recovery (cgo) is redirected to vC09Recover.
var (
	vC09Key  *ecdsa.PrivateKey
	vC09From common.Address
)

func vC09Recover(sighash common.Hash, R, S, Vb *big.Int, homestead bool) (common.Address, error) {
	if Vb != nil && Vb.IsInt64() && Vb.Int64() == 27+7 {
		return common.Address{}, vC09ErrBadSig // the marker vC09BadSig puts on a transaction
	}
	return vC09From, nil
}

type vC09Err string

func (e vC09Err) Error() string { return string(e) }

var vC09ErrBadSig = vC09Err("verif: unrecoverable signature")

// vC09BadSig gives tx a signature no key can have produced (recovery id 7): sender recovery
// fails, natively in the real secp256k1 code and under the engine in the vC09Recover seam.
func vC09BadSig(tx *etypes.Transaction) *etypes.Transaction {
	sig := make([]byte, 65)
	sig[31], sig[63], sig[64] = 1, 1, 7
	bad, err := tx.WithSignature(etypes.FrontierSigner{}, sig)
	if err != nil {
		panic(err)
	}
	return bad
}

func vC09Sign(tx *etypes.Transaction) *etypes.Transaction {
	if vSymbolic() {
		return tx
	}
	signed, err := etypes.SignTx(tx, etypes.FrontierSigner{}, vC09Key)
	if err != nil {
		panic(err)
	}
	return signed
}

func vC09App() *EVMApp {
	if vSymbolic() {
		vC09From = vC19Addr(1)
	} else {
		vC09Key, _ = crypto.GenerateKey()
		vC09From = crypto.PubkeyToAddress(vC09Key.PublicKey)
	}
	db := ethdb.NewMemDatabase()
	st, err := estate.New(common.Hash{}, estate.NewDatabase(db))
	if err != nil {
		panic(err)
	}
	// app.state is the state as of the last committed block (served to queries and the pool),
	// currentState the one the block being executed works on
	committed, err := estate.New(common.Hash{}, estate.NewDatabase(db))
	if err != nil {
		panic(err)
	}
	return &EVMApp{Signer: etypes.FrontierSigner{}, stateDb: db, state: committed, currentState: st, chainConfig: params.MainnetChainConfig}
}

func vC09KVPayload(kv *rtypes.KV, decodable bool) []byte {
	var body []byte
	if vSymbolic() {
		body = vNondetBytes("kvbody", 2)
		if decodable {
			vJSONBind(body, kv) // rlp.DecodeBytes is a seam under the engine
		}
	} else if decodable {
		body, _ = rlp.EncodeToBytes(kv)
	} else {
		body = []byte{0xff, 0xff}
	}
	return append(append([]byte{}, rtypes.KVTxType...), body...)
}

func VerifHarness_C09_exec_step() {
	app := vC09App()
	st := app.currentState
	sender := vC09From
	pre := uint64(vNondetLen("prenonce", 0, 2))
	st.SetNonce(sender, pre)
	st.AddBalance(sender, big.NewInt(1000000))
	// something already accumulated for this block
	app.receipts = etypes.Receipts{&etypes.Receipt{}}
	app.kvs = rtypes.KVs{&rtypes.KV{Key: []byte("k0"), Value: []byte("v0")}}
	block := &gtypes.Block{Header: &gtypes.Header{ChainID: "c", Height: 7}, Data: &gtypes.Data{}, LastCommit: &gtypes.Commit{}}
	var res gtypes.ExecuteResult
	exec, end := app.genExecFun(block, &res)() // real code

	raw := []byte{1, 2, 3}
	var tx *etypes.Transaction
	kind := vNondetLen("kind", 0, 3)
	txNonce := uint64(vNondetRange("txnonce", 0, 4))
	switch kind {
	case 0: // empty tx bytes: the verifier hands exec a nil *Transaction with status "checked"
		raw = []byte{}
	case 1: // key-value transaction
		kv := &rtypes.KV{Key: []byte("k1"), Value: []byte("v1")}
		payload := vC09KVPayload(kv, vNondetBool("decodable"))
		tx = vC09Sign(etypes.NewTransaction(txNonce, common.Address{}, nil, 0, nil, append([]byte{}, payload...)))
	case 2: // plain EVM call to an account without code, no value, gas price 0
		to := vC19Addr(9)
		tx = vC09Sign(etypes.NewTransaction(txNonce, to, big.NewInt(0), uint64(vNondetLen("gas", 0, 1))*30000, big.NewInt(0), []byte{1}))
	}
	if kind == 3 { // contract creation whose init code fails (INVALID / REVERT / empty-return success)
		// ... or calls the RIPEMD precompile (address 3, the account go-ethereum's "touch" special case is
		// about) with value 0 and then aborts
		callThenAbort := []byte{0x60, 0x00, 0x60, 0x00, 0x60, 0x00, 0x60, 0x00, 0x60, 0x00, 0x60, 0x03, 0x60, 0x00, 0xf1, 0xfe}
		codes := [][]byte{{0xfe}, {0x60, 0x00, 0x60, 0x00, 0xfd}, {0x00}, callThenAbort}
		tx = vC09Sign(etypes.NewContractCreation(txNonce, big.NewInt(0), 200000, big.NewInt(0), codes[vNondetLen("initcode", 0, 3)]))
	}
	nr, nk := len(app.receipts), len(app.kvs)
	senderOf := func() common.Address {
		if tx == nil {
			return sender
		}
		a, _ := etypes.Sender(app.Signer, tx)
		return a
	}
	from := senderOf()
	before := st.GetNonce(from)
	err := exec(0, raw, tx) // a panic here is a finding (T1)
	vObserve("exec-error", err)
	ok := end(raw, err)
	vAssert(ok, "end-continues")
	after := st.GetNonce(from)
	if err != nil {
		vReach("tx-invalid")
		vAssert(after == before, "T2-failed-tx-leaves-nonce")
		vAssert(len(app.receipts) == nr && len(app.kvs) == nk, "T2-failed-tx-records-nothing")
		vAssert(len(res.InvalidTxs) == 1 && len(res.ValidTxs) == 0, "T2-failed-tx-reported-invalid")
	} else {
		vReach("tx-valid")
		vAssert(tx != nil, "T1-empty-tx-is-not-valid")
		vAssert(len(res.ValidTxs) == 1 && len(res.InvalidTxs) == 0, "T2-valid-tx-reported-valid")
		vAssert((len(app.receipts)-nr)+(len(app.kvs)-nk) == 1, "T2-valid-tx-records-exactly-one-result")
		if tx != nil {
			vAssert(tx.Nonce() == before, "T3-valid-tx-has-the-account-nonce")
			vAssert(after == before+1, "T3-valid-tx-advances-nonce-by-one")
		}
	}
}

// T4: a transaction reported invalid leaves NOTHING behind for the rest of the block: the block
// [bad, good] treats `good` exactly as the block [good] does. bad is an EVM transfer of more than
// the sender owns (with a small, a huge or the maximal gas limit), a transaction with a stale or a
// future nonce, or an undecodable key-value transaction; good is a plain call with the right nonce.
func VerifHarness_C09_invalid_tx_is_inert() {
	run := func(withBad bool, badKind int, gasSel int) (err2 error, nonce uint64, valid, invalid int, receipts int) {
		app := vC09App()
		st := app.currentState
		st.SetNonce(vC09From, 1)
		st.AddBalance(vC09From, big.NewInt(1000000))
		block := &gtypes.Block{Header: &gtypes.Header{ChainID: "c", Height: 7}, Data: &gtypes.Data{}, LastCommit: &gtypes.Commit{}}
		var res gtypes.ExecuteResult
		begin := app.genExecFun(block, &res) // real code
		idx := 0
		if withBad {
			gas := []uint64{30000, 1 << 63, ^uint64(0)}[gasSel]
			var bad *etypes.Transaction
			switch badKind {
			case 0:
				bad = etypes.NewTransaction(1, vC19Addr(9), big.NewInt(5000000), gas, big.NewInt(0), []byte{1})
			case 1:
				bad = etypes.NewTransaction(0, vC19Addr(9), big.NewInt(0), gas, big.NewInt(0), []byte{1}) // stale nonce
			case 2:
				bad = etypes.NewTransaction(3, vC19Addr(9), big.NewInt(0), gas, big.NewInt(0), []byte{1}) // future nonce
			default:
				bad = etypes.NewTransaction(1, common.Address{}, nil, 0, nil, vC09KVPayload(&rtypes.KV{Key: []byte("k1"), Value: []byte("v1")}, false))
			}
			bad = vC09Sign(bad)
			exec, end := begin()
			err1 := exec(idx, []byte{9, 9}, bad)
			vAssert(err1 != nil, "T4-bad-tx-is-invalid")
			end([]byte{9, 9}, err1)
			idx++
		}
		good := vC09Sign(etypes.NewTransaction(1, vC19Addr(8), big.NewInt(7), 30000, big.NewInt(0), []byte{1}))
		exec, end := begin()
		err2 = exec(idx, []byte{1, 2, 3}, good)
		end([]byte{1, 2, 3}, err2)
		return err2, st.GetNonce(vC09From), len(res.ValidTxs), len(res.InvalidTxs), len(app.receipts)
	}
	badKind, gasSel := vNondetLen("bad-kind", 0, 3), vNondetLen("bad-gas", 0, 2)
	e1, n1, v1, i1, r1 := run(true, badKind, gasSel)
	e0, n0, v0, _, r0 := run(false, 0, 0)
	vReach("both-blocks-executed")
	vAssert(e0 == nil && n0 == 2 && v0 == 1 && r0 == 1, "T4-good-tx-alone-is-valid")
	vAssert((e1 == nil) == (e0 == nil), "T4-good-tx-fares-the-same-after-an-invalid-one")
	vAssert(n1 == n0 && v1 == v0 && r1 == r0 && i1 == 1, "T4-invalid-tx-leaves-no-trace-in-the-block")
}


// T5: several transactions of one sender in ONE block. The nonce rule is applied against the
// state the block is building: two key-value transactions with nonces n, n+1 are both valid, the
// same key-value transaction twice is valid once, an EVM call after a key-value transaction continues
// the sequence.
func VerifHarness_C09_same_sender_sequence() {
	app := vC09App()
	st := app.currentState
	n := uint64(vNondetLen("nonce", 0, 1))
	st.SetNonce(vC09From, n)
	st.AddBalance(vC09From, big.NewInt(1000000))
	block := &gtypes.Block{Header: &gtypes.Header{ChainID: "c", Height: 7}, Data: &gtypes.Data{}, LastCommit: &gtypes.Commit{}}
	var res gtypes.ExecuteResult
	begin := app.genExecFun(block, &res) // real code
	kvTx := func(nonce uint64, key string) *etypes.Transaction {
		kv := &rtypes.KV{Key: []byte(key), Value: []byte("v")}
		return vC09Sign(etypes.NewTransaction(nonce, common.Address{}, nil, 0, nil, append([]byte{}, vC09KVPayload(kv, true)...)))
	}
	first := kvTx(n, "ka")
	var second *etypes.Transaction
	wantSecond := true
	switch vNondetLen("second", 0, 2) {
	case 0:
		second = kvTx(n+1, "kb") // the next one in sequence
	case 1:
		second = first // the very same transaction again: a replay inside the block
		wantSecond = false
	default:
		second = vC09Sign(etypes.NewTransaction(n+1, vC19Addr(8), big.NewInt(0), 30000, big.NewInt(0), []byte{1}))
	}
	exec, end := begin()
	e1 := exec(0, []byte{1}, first)
	end([]byte{1}, e1)
	exec, end = begin()
	e2 := exec(1, []byte{2}, second)
	end([]byte{2}, e2)
	vReach("two-transactions-executed")
	vAssert(e1 == nil, "T5-first-transaction-valid")
	vAssert((e2 == nil) == wantSecond, "T5-second-transaction-judged-against-the-block-state")
	want := n + 1
	if wantSecond {
		want++
	}
	vAssert(st.GetNonce(vC09From) == want, "T5-nonce-advances-once-per-valid-transaction")
	vAssert(len(res.ValidTxs) == int(want-n) && len(res.InvalidTxs) == 2-int(want-n), "T5-valid-invalid-split")
}

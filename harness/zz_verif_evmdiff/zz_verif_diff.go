package evmdiff

// C10 — translation validation of the in-tree EVM against the reference go-ethereum v1.8.27
// SOURCE (module cache): the same bytecode with the same symbolic 256-bit operands is run through
// both interpreters (EVM.Call on a fresh in-memory state); return data and error must agree.

import (
	"bytes"
	"math/big"

	icommon "github.com/dappledger/AnnChain/eth/common"
	istate "github.com/dappledger/AnnChain/eth/core/state"
	ivm "github.com/dappledger/AnnChain/eth/core/vm"
	iethdb "github.com/dappledger/AnnChain/eth/ethdb"
	iparams "github.com/dappledger/AnnChain/eth/params"
	rcommon "github.com/ethereum/go-ethereum/common"
	rstate "github.com/ethereum/go-ethereum/core/state"
	rvm "github.com/ethereum/go-ethereum/core/vm"
	rethdb "github.com/ethereum/go-ethereum/ethdb"
	rparams "github.com/ethereum/go-ethereum/params"
)

func vRun(code, input []byte) (ri []byte, ei error, rr []byte, er error) {
	return vRun2(code, input, nil)
}

// vRun2 additionally installs calleeCode at address 0x...ca11ee in both worlds
func vRun2(code, input, calleeCode []byte) (ri []byte, ei error, rr []byte, er error) {
	zero := func() *big.Int { return new(big.Int) }
	contract := []byte("contract")
	// ---- in-tree ----
	{
		st, _ := istate.New(icommon.Hash{}, istate.NewDatabase(iethdb.NewMemDatabase()))
		addr := icommon.BytesToAddress(contract)
		ctx := ivm.Context{
			CanTransfer: func(db ivm.StateDB, a icommon.Address, amt *big.Int) bool { return db.GetBalance(a).Cmp(amt) >= 0 },
			Transfer:    func(db ivm.StateDB, from, to icommon.Address, amt *big.Int) { db.SubBalance(from, amt); db.AddBalance(to, amt) },
			GetHash:     func(n uint64) icommon.Hash { return icommon.Hash{} },
			GasPrice:    zero(), GasLimit: 10000000, BlockNumber: big.NewInt(1), Time: big.NewInt(1), Difficulty: zero(),
		}
		cc := &iparams.ChainConfig{ChainID: big.NewInt(1), HomesteadBlock: zero(), EIP150Block: zero(), EIP155Block: zero(),
			EIP158Block: zero(), ByzantiumBlock: zero(), ConstantinopleBlock: zero()}
		evm := ivm.NewEVM(ctx, st, cc, ivm.Config{EVMGasLimit: 10000000})
		st.CreateAccount(addr)
		st.SetCode(addr, append([]byte{}, code...))
		if calleeCode != nil {
			ca := icommon.BytesToAddress([]byte{0xca, 0x11, 0xee})
			st.CreateAccount(ca)
			st.SetCode(ca, append([]byte{}, calleeCode...))
		}
		ri, _, ei = evm.Call(ivm.AccountRef(icommon.Address{}), addr, append([]byte{}, input...), 10000000, zero())
	}
	// ---- reference go-ethereum v1.8.27 ----
	{
		st, _ := rstate.New(rcommon.Hash{}, rstate.NewDatabase(rethdb.NewMemDatabase()))
		addr := rcommon.BytesToAddress(contract)
		ctx := rvm.Context{
			CanTransfer: func(db rvm.StateDB, a rcommon.Address, amt *big.Int) bool { return db.GetBalance(a).Cmp(amt) >= 0 },
			Transfer:    func(db rvm.StateDB, from, to rcommon.Address, amt *big.Int) { db.SubBalance(from, amt); db.AddBalance(to, amt) },
			GetHash:     func(n uint64) rcommon.Hash { return rcommon.Hash{} },
			GasPrice:    zero(), GasLimit: 10000000, BlockNumber: big.NewInt(1), Time: big.NewInt(1), Difficulty: zero(),
		}
		cc := &rparams.ChainConfig{ChainID: big.NewInt(1), HomesteadBlock: zero(), EIP150Block: zero(), EIP155Block: zero(),
			EIP158Block: zero(), ByzantiumBlock: zero(), ConstantinopleBlock: zero()}
		evm := rvm.NewEVM(ctx, st, cc, rvm.Config{})
		st.CreateAccount(addr)
		st.SetCode(addr, append([]byte{}, code...))
		if calleeCode != nil {
			ca := rcommon.BytesToAddress([]byte{0xca, 0x11, 0xee})
			st.CreateAccount(ca)
			st.SetCode(ca, append([]byte{}, calleeCode...))
		}
		rr, _, er = evm.Call(rvm.AccountRef(rcommon.Address{}), addr, append([]byte{}, input...), 10000000, zero())
	}
	return
}

func vAgree(ri []byte, ei error, rr []byte, er error, tag string) {
	vAssert((ei == nil) == (er == nil), tag+"-same-success")
	if ei != nil && er != nil {
		vAssert(ei.Error() == er.Error(), tag+"-same-error")
	}
	vAssert(bytes.Equal(ri, rr), tag+"-same-return-data")
}

// operand: a 256-bit word with symbolic top, middle and low bytes (the rest from a fixed filler)
func vWord(tag string) []byte {
	w := make([]byte, 32)
	fill := byte(0)
	if vNondetBool(tag + ".ff") {
		fill = 0xff
	}
	for i := range w {
		w[i] = fill
	}
	w[0], w[15], w[30], w[31] = vNondetByte(tag), vNondetByte(tag), vNondetByte(tag), vNondetByte(tag)
	return w
}

// ret32: store the top of stack to memory and return it
var vRet32 = []byte{0x60, 0x00, 0x52, 0x60, 0x20, 0x60, 0x00, 0xf3}

// E1a: binary and unary stack opcodes on symbolic operands
func VerifHarness_C10_stack_ops_symbolic() {
	ops := []byte{0x01, 0x03, 0x10, 0x11, 0x12, 0x13, 0x14, 0x16, 0x17, 0x18, 0x1a, 0x1b, 0x1c, 0x1d, 0x0b, 0x15, 0x19, 0x02}
	op := ops[vNondetLen("op", 0, vParam("OPS", len(ops))-1)]
	x, y := vWord("x"), vWord("y")
	if op == 0x1a || op == 0x1b || op == 0x1c || op == 0x1d || op == 0x0b {
		// shift amount / byte index / sign-extension width: small symbolic value
		for i := 0; i < 31; i++ {
			x[i] = 0
		}
		if vNondetBool("bigshift") {
			x[30] = 1
		}
	}
	code := []byte{0x7f}
	code = append(code, y...)
	code = append(code, 0x7f)
	code = append(code, x...)
	code = append(code, op)
	code = append(code, vRet32...)
	ri, ei, rr, er := vRun(code, nil)
	vReach("executed")
	vAgree(ri, ei, rr, er, "E1")
	vAssert(ei == nil && len(ri) == 32, "E1-in-tree-executes")
}

// E1b: division family, EXP, ADDMOD/MULMOD on a table of boundary operands
func VerifHarness_C10_division_family() {
	ops := []byte{0x04, 0x05, 0x06, 0x07, 0x08, 0x09, 0x0a}
	op := ops[vNondetLen("op", 0, len(ops)-1)]
	table := [][]byte{
		make([]byte, 32),
		append(make([]byte, 31), 1),
		append(make([]byte, 31), 2),
		append(make([]byte, 31), 7),
		bytes.Repeat([]byte{0xff}, 32),
		append([]byte{0x80}, make([]byte, 31)...),
		append([]byte{0x7f}, bytes.Repeat([]byte{0xff}, 31)...),
		append(bytes.Repeat([]byte{0xff}, 31), 0xfe),
	}
	a, b, c := table[vNondetLen("a", 0, len(table)-1)], table[vNondetLen("b", 0, len(table)-1)], table[vNondetLen("c", 0, 3)]
	code := []byte{0x7f}
	code = append(code, c...)
	code = append(code, 0x7f)
	code = append(code, b...)
	code = append(code, 0x7f)
	code = append(code, a...)
	code = append(code, op)
	code = append(code, vRet32...)
	ri, ei, rr, er := vRun(code, nil)
	vReach("executed")
	vAgree(ri, ei, rr, er, "E1b")
}

// E2: every opcode byte, with 0..7 small values on the stack: same outcome in both interpreters
// (valid/invalid opcode, stack under/overflow checks, halting)
func VerifHarness_C10_every_opcode() {
	op := byte(vNondetLen("opcode", 0, 255))
	k := vNondetLen("pushes", 0, 7)
	if op == 0xfe || op == 0xff || op == 0xf0 || op == 0xf5 || (op >= 0xf1 && op <= 0xfa) {
		// calls / creates / selfdestruct: covered by the gas-regime deviation note, skipped here
		vAssume(op == 0xfe || op == 0xfd || op == 0xf3)
	}
	var code []byte
	for i := 0; i < k; i++ {
		code = append(code, 0x60, byte(i+1))
	}
	code = append(code, op)
	if op >= 0x60 && op <= 0x7f { // PUSHn immediate data
		for i := 0; i < int(op-0x5f); i++ {
			code = append(code, byte(0xA0+i))
		}
	}
	code = append(code, 0x00)
	ri, ei, rr, er := vRun(code, []byte{1, 2, 3, 4})
	vReach("executed")
	vAgree(ri, ei, rr, er, "E2")
}


// E3: the CALL family. The callee stores a symbolic word and RETURNs or REVERTs it; the caller
// returns (success flag, its own memory window the output was copied to, RETURNDATASIZE).
func VerifHarness_C10_call_family() {
	kinds := []byte{0xf1, 0xf2, 0xf4, 0xfa} // CALL, CALLCODE, DELEGATECALL, STATICCALL
	op := kinds[vNondetLen("callop", 0, len(kinds)-1)]
	end := byte(0xf3)
	if vNondetBool("callee-reverts") {
		end = 0xfd
	}
	x := vWord("x")
	callee := append([]byte{0x7f}, x...)
	callee = append(callee, 0x60, 0x00, 0x52, 0x60, 0x20, 0x60, 0x00, end)
	outSize := byte(vNondetLen("outsize", 0, 2) * 16) // 0, 16, 32
	var code []byte
	// pre-fill the output window with a marker
	code = append(code, 0x7f)
	code = append(code, bytes.Repeat([]byte{0xEE}, 32)...)
	code = append(code, 0x60, 0x00, 0x52)
	code = append(code, 0x60, outSize, 0x60, 0x00, 0x60, 0x00, 0x60, 0x00) // outSize outOff inSize inOff
	if op == 0xf1 || op == 0xf2 {
		code = append(code, 0x60, 0x00) // value
	}
	code = append(code, 0x62, 0xca, 0x11, 0xee) // PUSH3 callee address
	code = append(code, 0x62, 0x01, 0x86, 0xa0) // PUSH3 100000 gas
	code = append(code, op)
	code = append(code, 0x60, 0x20, 0x52) // success flag -> mem[32:64]
	code = append(code, 0x3d, 0x60, 0x40, 0x52) // RETURNDATASIZE -> mem[64:96]
	code = append(code, 0x60, 0x60, 0x60, 0x00, 0xf3) // return mem[0:96]
	ri, ei, rr, er := vRun2(code, nil, callee)
	vReach("executed")
	vAgree(ri, ei, rr, er, "E3")
	vAssert(ei == nil && len(ri) == 96, "E3-in-tree-executes")
}

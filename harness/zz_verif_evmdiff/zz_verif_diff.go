package evmdiff

// C10 — translation validation of the in-tree EVM against the reference go-ethereum v1.8.27
// SOURCE (module cache): the same bytecode with the same symbolic 256-bit operands is run through
// both interpreters (EVM.Call on a fresh in-memory state); return data and error must agree.

import (
	"bytes"
	"math/big"

	icommon "github.com/dappledger/AnnChain/eth/common"
	istate "github.com/dappledger/AnnChain/eth/core/state"
	ivm "github.com/dappledger/AnnChain/eth/core/vm"
	iethdb "github.com/dappledger/AnnChain/eth/ethdb"
	iparams "github.com/dappledger/AnnChain/eth/params"
	rcommon "github.com/ethereum/go-ethereum/common"
	rstate "github.com/ethereum/go-ethereum/core/state"
	rvm "github.com/ethereum/go-ethereum/core/vm"
	rethdb "github.com/ethereum/go-ethereum/ethdb"
	rparams "github.com/ethereum/go-ethereum/params"
)

// the logs emitted by the last vRun2, flattened (address ++ topics ++ data), per interpreter
var vLogsI, vLogsR [][]byte

// balances after the last vRun2 (contract, the fixed third-party account 0xbeef), per interpreter
var vBalI, vBalR [2][]byte

func vRun(code, input []byte) (ri []byte, ei error, rr []byte, er error) {
	return vRun2(code, input, nil)
}

// vRun2 additionally installs calleeCode at address 0x...ca11ee in both worlds
func vRun2(code, input, calleeCode []byte) (ri []byte, ei error, rr []byte, er error) {
	zero := func() *big.Int { return new(big.Int) }
	contract := []byte("contract")
	// ---- in-tree ----
	{
		st, _ := istate.New(icommon.Hash{}, istate.NewDatabase(iethdb.NewMemDatabase()))
		addr := icommon.BytesToAddress(contract)
		ctx := ivm.Context{
			CanTransfer: func(db ivm.StateDB, a icommon.Address, amt *big.Int) bool { return db.GetBalance(a).Cmp(amt) >= 0 },
			Transfer:    func(db ivm.StateDB, from, to icommon.Address, amt *big.Int) { db.SubBalance(from, amt); db.AddBalance(to, amt) },
			GetHash:     func(n uint64) icommon.Hash { return icommon.Hash{} },
			GasPrice:    zero(), GasLimit: 10000000, BlockNumber: big.NewInt(1), Time: big.NewInt(1), Difficulty: zero(),
		}
		cc := &iparams.ChainConfig{ChainID: big.NewInt(1), HomesteadBlock: zero(), EIP150Block: zero(), EIP155Block: zero(),
			EIP158Block: zero(), ByzantiumBlock: zero(), ConstantinopleBlock: zero()}
		evm := ivm.NewEVM(ctx, st, cc, ivm.Config{EVMGasLimit: 10000000})
		st.CreateAccount(addr)
		st.SetCode(addr, append([]byte{}, code...))
		st.AddBalance(addr, big.NewInt(1000))                 // the contract owns something
		st.CreateAccount(icommon.BytesToAddress([]byte{0x07})) // an account that exists and is empty
		if calleeCode != nil {
			ca := icommon.BytesToAddress([]byte{0xca, 0x11, 0xee})
			st.CreateAccount(ca)
			st.SetCode(ca, append([]byte{}, calleeCode...))
		}
		ri, _, ei = evm.Call(ivm.AccountRef(icommon.Address{}), addr, append([]byte{}, input...), 10000000, zero())
		vBalI = [2][]byte{st.GetBalance(addr).Bytes(), st.GetBalance(icommon.BytesToAddress([]byte{0xbe, 0xef})).Bytes()}
		vLogsI = nil
		for _, l := range st.Logs() {
			f := append([]byte{}, l.Address[:]...)
			for _, t := range l.Topics {
				f = append(f, t[:]...)
			}
			vLogsI = append(vLogsI, append(f, l.Data...))
		}
	}
	// ---- reference go-ethereum v1.8.27 ----
	{
		st, _ := rstate.New(rcommon.Hash{}, rstate.NewDatabase(rethdb.NewMemDatabase()))
		addr := rcommon.BytesToAddress(contract)
		ctx := rvm.Context{
			CanTransfer: func(db rvm.StateDB, a rcommon.Address, amt *big.Int) bool { return db.GetBalance(a).Cmp(amt) >= 0 },
			Transfer:    func(db rvm.StateDB, from, to rcommon.Address, amt *big.Int) { db.SubBalance(from, amt); db.AddBalance(to, amt) },
			GetHash:     func(n uint64) rcommon.Hash { return rcommon.Hash{} },
			GasPrice:    zero(), GasLimit: 10000000, BlockNumber: big.NewInt(1), Time: big.NewInt(1), Difficulty: zero(),
		}
		cc := &rparams.ChainConfig{ChainID: big.NewInt(1), HomesteadBlock: zero(), EIP150Block: zero(), EIP155Block: zero(),
			EIP158Block: zero(), ByzantiumBlock: zero(), ConstantinopleBlock: zero()}
		evm := rvm.NewEVM(ctx, st, cc, rvm.Config{})
		st.CreateAccount(addr)
		st.SetCode(addr, append([]byte{}, code...))
		st.AddBalance(addr, big.NewInt(1000))
		st.CreateAccount(rcommon.BytesToAddress([]byte{0x07}))
		if calleeCode != nil {
			ca := rcommon.BytesToAddress([]byte{0xca, 0x11, 0xee})
			st.CreateAccount(ca)
			st.SetCode(ca, append([]byte{}, calleeCode...))
		}
		rr, _, er = evm.Call(rvm.AccountRef(rcommon.Address{}), addr, append([]byte{}, input...), 10000000, zero())
		vBalR = [2][]byte{st.GetBalance(addr).Bytes(), st.GetBalance(rcommon.BytesToAddress([]byte{0xbe, 0xef})).Bytes()}
		vLogsR = nil
		for _, l := range st.Logs() {
			f := append([]byte{}, l.Address[:]...)
			for _, t := range l.Topics {
				f = append(f, t[:]...)
			}
			vLogsR = append(vLogsR, append(f, l.Data...))
		}
	}
	return
}

func vAgree(ri []byte, ei error, rr []byte, er error, tag string) {
	vAssert((ei == nil) == (er == nil), tag+"-same-success")
	if ei != nil && er != nil {
		vAssert(ei.Error() == er.Error(), tag+"-same-error")
	}
	vAssert(bytes.Equal(ri, rr), tag+"-same-return-data")
}

// operand: a 256-bit word with symbolic top, middle and low bytes (the rest from a fixed filler)
func vWord(tag string) []byte {
	w := make([]byte, 32)
	fill := byte(0)
	if vNondetBool(tag + ".ff") {
		fill = 0xff
	}
	for i := range w {
		w[i] = fill
	}
	w[0], w[15], w[30], w[31] = vNondetByte(tag), vNondetByte(tag), vNondetByte(tag), vNondetByte(tag)
	return w
}

// vWordM: a word for memory / storage tests: fixed non-zero pattern with two symbolic bytes (the top
// byte is a non-zero constant, so that big.Int normalisation does not fork on it)
func vWordM(tag string, base byte) []byte {
	w := make([]byte, 32)
	for i := range w {
		w[i] = base + byte(i)
	}
	w[5], w[20] = vNondetByte(tag), vNondetByte(tag)
	return w
}

// ret32: store the top of stack to memory and return it
var vRet32 = []byte{0x60, 0x00, 0x52, 0x60, 0x20, 0x60, 0x00, 0xf3}

// E1a: binary and unary stack opcodes on symbolic operands
func VerifHarness_C10_stack_ops_symbolic() {
	ops := []byte{0x01, 0x03, 0x10, 0x11, 0x12, 0x13, 0x14, 0x16, 0x17, 0x18, 0x1a, 0x1b, 0x1c, 0x1d, 0x0b, 0x15, 0x19, 0x02}
	op := ops[vNondetLen("op", 0, vParam("OPS", len(ops))-1)]
	x, y := vWord("x"), vWord("y")
	if op == 0x1a || op == 0x1b || op == 0x1c || op == 0x1d || op == 0x0b {
		// shift amount / byte index / sign-extension width: small symbolic value
		for i := 0; i < 31; i++ {
			x[i] = 0
		}
		if vNondetBool("bigshift") {
			x[30] = 1
		}
	}
	code := []byte{0x7f}
	code = append(code, y...)
	code = append(code, 0x7f)
	code = append(code, x...)
	code = append(code, op)
	code = append(code, vRet32...)
	ri, ei, rr, er := vRun(code, nil)
	vReach("executed")
	vAgree(ri, ei, rr, er, "E1")
	vAssert(ei == nil && len(ri) == 32, "E1-in-tree-executes")
}

// E1b: division family, EXP, ADDMOD/MULMOD on a table of boundary operands
func VerifHarness_C10_division_family() {
	ops := []byte{0x04, 0x05, 0x06, 0x07, 0x08, 0x09, 0x0a}
	op := ops[vNondetLen("op", 0, len(ops)-1)]
	table := [][]byte{
		make([]byte, 32),
		append(make([]byte, 31), 1),
		append(make([]byte, 31), 2),
		append(make([]byte, 31), 7),
		bytes.Repeat([]byte{0xff}, 32),
		append([]byte{0x80}, make([]byte, 31)...),
		append([]byte{0x7f}, bytes.Repeat([]byte{0xff}, 31)...),
		append(bytes.Repeat([]byte{0xff}, 31), 0xfe),
	}
	a, b, c := table[vNondetLen("a", 0, len(table)-1)], table[vNondetLen("b", 0, len(table)-1)], table[vNondetLen("c", 0, 3)]
	code := []byte{0x7f}
	code = append(code, c...)
	code = append(code, 0x7f)
	code = append(code, b...)
	code = append(code, 0x7f)
	code = append(code, a...)
	code = append(code, op)
	code = append(code, vRet32...)
	ri, ei, rr, er := vRun(code, nil)
	vReach("executed")
	vAgree(ri, ei, rr, er, "E1b")
}

// E2: every opcode byte, with 0..7 small values on the stack: same outcome in both interpreters
// (valid/invalid opcode, stack under/overflow checks, halting)
func VerifHarness_C10_every_opcode() {
	op := byte(vNondetLen("opcode", 0, 255))
	k := vNondetLen("pushes", 0, 7)
	if op == 0xfe || op == 0xff || op == 0xf0 || op == 0xf5 || (op >= 0xf1 && op <= 0xfa) {
		// calls / creates / selfdestruct: covered by the gas-regime deviation note, skipped here
		vAssume(op == 0xfe || op == 0xfd || op == 0xf3)
	}
	var code []byte
	for i := 0; i < k; i++ {
		code = append(code, 0x60, byte(i+1))
	}
	code = append(code, op)
	if op >= 0x60 && op <= 0x7f { // PUSHn immediate data
		for i := 0; i < int(op-0x5f); i++ {
			code = append(code, byte(0xA0+i))
		}
	}
	// epilogue: the value the opcode left on top of the stack goes to mem[0x80:0xa0], and the
	// first 0xa0 bytes of memory are returned: the opcode's result AND its effect on memory (the
	// operands are small, so memory opcodes touch low addresses) are compared, not only its outcome.
	// An opcode that leaves the stack empty makes the epilogue underflow in both interpreters alike.
	if op == 0x5a {
		// GAS: the in-tree interpreter charges by a different schedule (documented deviation of the
		// gas regime, outside the claim): only the outcome is compared, not the value
		code = append(code, 0x00)
	} else {
		code = append(code, 0x60, 0x80, 0x52, 0x60, 0xa0, 0x60, 0x00, 0xf3)
	}
	ri, ei, rr, er := vRun(code, []byte{1, 2, 3, 4})
	vReach("executed")
	vAgree(ri, ei, rr, er, "E2")
}

// E4: memory, return data and a precompile. The caller stores a symbolic word, CALLs / STATICCALLs
// the identity precompile (address 4) with input and output windows that may overlap, overwrites
// the argument region, copies the return data elsewhere and returns its memory: the return data
// must be a COPY of the arguments as of the call, exactly as in the reference.
func VerifHarness_C10_precompile_memory() {
	op := byte(0xf1)
	if vNondetBool("staticcall") {
		op = 0xfa
	}
	x, y := vWordM("x", 0x10), vWordM("y", 0x90)
	inOff := byte(vNondetLen("inoff", 0, 1) * 8)       // 0, 8
	inSize := byte(vNondetLen("insize", 0, 2) * 16)    // 0, 16, 32
	outOff := byte(vNondetLen("outoff", 0, 2) * 8)     // 0, 8, 16
	outSize := byte(vNondetLen("outsize", 0, 2) * 16) // 0, 16, 32
	var code []byte
	code = append(code, 0x7f)
	code = append(code, x...)
	code = append(code, 0x60, 0x00, 0x52) // mem[0:32] = x
	code = append(code, 0x7f)
	code = append(code, bytes.Repeat([]byte{0xEE}, 32)...)
	code = append(code, 0x60, 0x20, 0x52) // mem[32:64] = marker
	code = append(code, 0x60, outSize, 0x60, outOff, 0x60, inSize, 0x60, inOff)
	if op == 0xf1 {
		code = append(code, 0x60, 0x00) // value
	}
	code = append(code, 0x60, 0x04)             // identity precompile
	code = append(code, 0x62, 0x01, 0x86, 0xa0) // gas
	code = append(code, op)
	code = append(code, 0x60, 0x60, 0x52) // success flag -> mem[0x60:0x80]
	if vNondetBool("overwrite-args") {
		code = append(code, 0x7f)
		code = append(code, y...)
		code = append(code, 0x60, inOff, 0x52) // mem[inOff:inOff+32] = y (after the call)
	}
	code = append(code, 0x3d, 0x60, 0x00, 0x60, 0x80, 0x3e) // RETURNDATACOPY(0x80, 0, RETURNDATASIZE)
	code = append(code, 0x3d, 0x60, 0xc0, 0x52)             // RETURNDATASIZE -> mem[0xc0:0xe0]
	code = append(code, 0x60, 0xe0, 0x60, 0x00, 0xf3)       // return mem[0:0xe0]
	ri, ei, rr, er := vRun(code, nil)
	vReach("executed")
	vAgree(ri, ei, rr, er, "E4")
	vAssert(ei == nil && len(ri) == 0xe0, "E4-in-tree-executes")
}

// E5: control flow. JUMP / JUMPI with a symbolic condition to a destination that is a JUMPDEST,
// a 0x5b byte inside PUSH data (not a valid destination), a non-JUMPDEST opcode, or out of range.
func VerifHarness_C10_jumps() {
	cond := vWord("cond")
	jumpi := vNondetBool("jumpi")
	// layout: PUSH32 cond | (PUSH1 dest JUMPI) or (POP PUSH1 dest JUMP) | PUSH1 0x11 ret32 |
	//         P: JUMPDEST PUSH1 0x22 ret32 | PUSH1 0x5b (the data byte sits at P+12) | STOP
	P := 33 + 3 + 10
	if !jumpi {
		P++
	}
	dests := []int{P, P + 12, P + 1, 200, 0}
	dest := byte(dests[vNondetLen("dest", 0, len(dests)-1)])
	code := []byte{0x7f}
	code = append(code, cond...)
	if jumpi {
		code = append(code, 0x60, dest, 0x57)
	} else {
		code = append(code, 0x50, 0x60, dest, 0x56)
	}
	code = append(code, 0x60, 0x11)
	code = append(code, vRet32...)
	vAssert(len(code) == P, "E5-layout")
	code = append(code, 0x5b, 0x60, 0x22)
	code = append(code, vRet32...)
	code = append(code, 0x60, 0x5b, 0x00)
	ri, ei, rr, er := vRun(code, nil)
	vReach("executed")
	vAgree(ri, ei, rr, er, "E5")
}

// E6: storage. SSTORE / SLOAD with symbolic keys and values: write k1, write k2 (possibly the same
// slot, possibly zero), read k1 back.
func VerifHarness_C10_storage() {
	// slot keys are concrete (the state trie hashes them with the real Keccak), values symbolic
	keys := [][]byte{make([]byte, 32), append(make([]byte, 31), 1), bytes.Repeat([]byte{0xff}, 32)}
	k1 := keys[vNondetLen("k1", 0, len(keys)-1)]
	k2 := keys[vNondetLen("k2", 0, len(keys)-1)]
	v1, v2 := vWordM("v1", 0x10), vWordM("v2", 0x90)
	if vNondetBool("v2-zero") {
		v2 = make([]byte, 32) // clearing a slot
	}
	var code []byte
	push := func(w []byte) { code = append(append(code, 0x7f), w...) }
	push(v1)
	push(k1)
	code = append(code, 0x55)
	push(v2)
	push(k2)
	code = append(code, 0x55)
	push(k1)
	code = append(code, 0x54)
	code = append(code, vRet32...)
	ri, ei, rr, er := vRun(code, nil)
	vReach("executed")
	vAgree(ri, ei, rr, er, "E6")
	vAssert(ei == nil && len(ri) == 32, "E6-in-tree-executes")
}

// E7: call data and code copies with symbolic small offsets and lengths around the boundaries
// (reads beyond the end are zero-filled), CALLDATALOAD at a symbolic offset.
func VerifHarness_C10_data_copies() {
	input := vNondetBytes("input", 5)
	op := []byte{0x37, 0x39, 0x35}[vNondetLen("op", 0, 2)] // CALLDATACOPY, CODECOPY, CALLDATALOAD
	off := []byte{0, 1, 4, 5, 6, 31, 40}[vNondetLen("off", 0, 6)]
	var code []byte
	code = append(code, 0x7f)
	code = append(code, bytes.Repeat([]byte{0xEE}, 32)...)
	code = append(code, 0x60, 0x00, 0x52) // marker
	if op == 0x35 {
		code = append(code, 0x60, off, 0x35, 0x60, 0x20, 0x52) // mem[32:64] = CALLDATALOAD(off)
	} else {
		ln := byte(vNondetLen("len", 0, 3) * 3) // 0, 3, 6, 9
		dst := byte(vNondetLen("dst", 0, 1) * 30)
		code = append(code, 0x60, ln, 0x60, off, 0x60, dst, op)
	}
	code = append(code, 0x59, 0x60, 0x40, 0x52)       // MSIZE -> mem[64:96]
	code = append(code, 0x60, 0x60, 0x60, 0x00, 0xf3) // return mem[0:96]
	ri, ei, rr, er := vRun(code, input)
	vReach("executed")
	vAgree(ri, ei, rr, er, "E7")
	vAssert(ei == nil && len(ri) == 0x60, "E7-in-tree-executes")
}


// E3: the CALL family. The callee stores a symbolic word and RETURNs or REVERTs it; the caller
// returns (success flag, its own memory window the output was copied to, RETURNDATASIZE).
func VerifHarness_C10_call_family() {
	kinds := []byte{0xf1, 0xf2, 0xf4, 0xfa} // CALL, CALLCODE, DELEGATECALL, STATICCALL
	op := kinds[vNondetLen("callop", 0, len(kinds)-1)]
	end := byte(0xf3)
	if vNondetBool("callee-reverts") {
		end = 0xfd
	}
	x := vWord("x")
	callee := append([]byte{0x7f}, x...)
	callee = append(callee, 0x60, 0x00, 0x52, 0x60, 0x20, 0x60, 0x00, end)
	outSize := byte(vNondetLen("outsize", 0, 2) * 16) // 0, 16, 32
	var code []byte
	// pre-fill the output window with a marker
	code = append(code, 0x7f)
	code = append(code, bytes.Repeat([]byte{0xEE}, 32)...)
	code = append(code, 0x60, 0x00, 0x52)
	code = append(code, 0x60, outSize, 0x60, 0x00, 0x60, 0x00, 0x60, 0x00) // outSize outOff inSize inOff
	if op == 0xf1 || op == 0xf2 {
		code = append(code, 0x60, 0x00) // value
	}
	code = append(code, 0x62, 0xca, 0x11, 0xee) // PUSH3 callee address
	code = append(code, 0x62, 0x01, 0x86, 0xa0) // PUSH3 100000 gas
	code = append(code, op)
	code = append(code, 0x60, 0x20, 0x52) // success flag -> mem[32:64]
	code = append(code, 0x3d, 0x60, 0x40, 0x52) // RETURNDATASIZE -> mem[64:96]
	code = append(code, 0x60, 0x60, 0x60, 0x00, 0xf3) // return mem[0:96]
	ri, ei, rr, er := vRun2(code, nil, callee)
	vReach("executed")
	vAgree(ri, ei, rr, er, "E3")
	vAssert(ei == nil && len(ri) == 96, "E3-in-tree-executes")
}


// E8: logs. The contract stores a symbolic word, emits LOG0..LOG2 over a window of its memory,
// overwrites that memory and emits a second log: both interpreters must have recorded the same
// logs (emitter, topics, data as of the time of each LOG).
func VerifHarness_C10_logs() {
	x, y := vWordM("x", 0x10), vWordM("y", 0x90)
	topics := vNondetLen("topics", 0, 2)
	off := byte(vNondetLen("off", 0, 1) * 8)
	size := byte(vNondetLen("size", 0, 2) * 16)
	var code []byte
	code = append(code, 0x7f)
	code = append(code, x...)
	code = append(code, 0x60, 0x00, 0x52)
	emit := func() {
		for i := 0; i < topics; i++ {
			code = append(code, 0x60, byte(0xA1+i))
		}
		code = append(code, 0x60, size, 0x60, off, byte(0xa0+topics))
	}
	emit()
	code = append(code, 0x7f)
	code = append(code, y...)
	code = append(code, 0x60, 0x00, 0x52) // overwrite the logged region
	emit()
	code = append(code, 0x00)
	_, ei, _, er := vRun(code, nil)
	vReach("executed")
	vAssert(ei == nil && er == nil, "E8-executes")
	vAssert(len(vLogsI) == 2 && len(vLogsR) == 2, "E8-two-logs-recorded")
	if len(vLogsI) == 2 && len(vLogsR) == 2 {
		vAssert(bytes.Equal(vLogsI[0], vLogsR[0]), "E8-first-log-identical")
		vAssert(bytes.Equal(vLogsI[1], vLogsR[1]), "E8-second-log-identical")
	}
}

// E9: CREATE from a contract. Two creations in a row, each with init code that fails (INVALID),
// reverts, or succeeds with empty code: the addresses pushed on the stack (they depend on the
// creator's nonce at each CREATE) must be the same in both interpreters.
func VerifHarness_C10_create() {
	inits := [][]byte{{0xfe}, {0x60, 0x00, 0x60, 0x00, 0xfd}, {0x00}}
	a, b := inits[vNondetLen("first", 0, 2)], inits[vNondetLen("second", 0, 2)]
	var code []byte
	create := func(init []byte, resultAt byte) {
		w := make([]byte, 32)
		copy(w, init)
		code = append(code, 0x7f)
		code = append(code, w...)
		code = append(code, 0x60, 0x00, 0x52)                                    // init code at mem[0:]
		code = append(code, 0x60, byte(len(init)), 0x60, 0x00, 0x60, 0x00, 0xf0) // CREATE(value 0, offset 0, size)
		code = append(code, 0x60, resultAt, 0x52)
	}
	create(a, 0x40)
	create(b, 0x60)
	code = append(code, 0x60, 0x40, 0x60, 0x40, 0xf3) // return mem[0x40:0x80]
	ri, ei, rr, er := vRun(code, nil)
	vReach("executed")
	vAgree(ri, ei, rr, er, "E9")
	vAssert(ei == nil && len(ri) == 0x40, "E9-in-tree-executes")
}


// E10: SELFDESTRUCT of a contract that owns 1000 wei, to a third party, to itself (the ether is
// destroyed), to an existing empty account or to a missing one; optionally the balance is read first. Return data and
// the balances left behind must be the same in both interpreters.
func VerifHarness_C10_selfdestruct() {
	var code []byte
	if vNondetBool("read-balance-first") {
		code = append(code, 0x30, 0x31, 0x60, 0x00, 0x52) // ADDRESS BALANCE -> mem[0]
	}
	switch vNondetLen("beneficiary", 0, 3) {
	case 0:
		code = append(code, 0x61, 0xbe, 0xef) // PUSH2 0xbeef
	case 1:
		code = append(code, 0x30) // ADDRESS: itself
	case 2:
		code = append(code, 0x60, 0x07) // the existing empty account
	default:
		code = append(code, 0x60, 0x09) // an account that does not exist
	}
	code = append(code, 0xff)
	ri, ei, rr, er := vRun(code, nil)
	vReach("executed")
	vAgree(ri, ei, rr, er, "E10")
	vAssert(bytes.Equal(vBalI[0], vBalR[0]), "E10-same-balance-left-in-the-contract")
	vAssert(bytes.Equal(vBalI[1], vBalR[1]), "E10-same-balance-at-the-third-party")
}

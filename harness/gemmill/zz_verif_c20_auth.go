package gemmill

// C20 — admission by CA signature: the real authByCA closure, exercised AFTER the validator set
// it was created over has been replaced (validator-set changes must take effect).

import (
	"encoding/hex"
	"strings"

	"github.com/spf13/viper"

	"github.com/dappledger/AnnChain/gemmill/go-crypto"
	"github.com/dappledger/AnnChain/gemmill/p2p"
	"github.com/dappledger/AnnChain/gemmill/types"
)

// fake key: a signature (64 bytes) verifies iff byte0 == 1 and byte1 names this key.
type vAuthKey struct{ ID byte }

func (k vAuthKey) Address() []byte             { return []byte{k.ID} }
func (k vAuthKey) Bytes() []byte               { return []byte{k.ID} }
func (k vAuthKey) KeyString() string           { return strings.ToUpper(hex.EncodeToString([]byte{k.ID, k.ID})) }
func (k vAuthKey) Equals(o crypto.PubKey) bool { ok, is := o.(vAuthKey); return is && ok.ID == k.ID }
func (k vAuthKey) VerifyBytes(msg []byte, sig crypto.Signature) bool {
	s, ok := sig.(crypto.SignatureEd25519)
	return ok && s[0] == 1 && s[1] == k.ID && len(msg) == 2 && msg[0] == msg[1]
}

func vAuthSet(n int, tag string) *types.ValidatorSet {
	vals := make([]*types.Validator, 0, n)
	for i := 0; i < n; i++ {
		if vNondetBool(tag + ".member") {
			vals = append(vals, &types.Validator{Address: []byte{byte(i + 1)}, PubKey: vAuthKey{byte(i + 1)}, VotingPower: 1, IsCA: vNondetBool(tag + ".isca")})
		}
	}
	return &types.ValidatorSet{Validators: vals}
}

func VerifHarness_C20_N4_auth_by_ca() {
	n := vParam("N", 3)
	strict := vNondetBool("non_validator_node_auth")
	var conf *viper.Viper
	if vSymbolic() {
		vSetStub("Viper).GetBool", strict) // the config read is a seam under the engine
	} else {
		conf = viper.New()
		conf.Set("non_validator_node_auth", strict)
	}
	old := vAuthSet(n, "old")
	cur := old
	auth := authByCA(conf, &cur) // real code; cur is the live pointer the state machine updates
	if vNondetBool("set-replaced") {
		cur = vAuthSet(n, "new") // validator-set change applied at end of block
	}
	peer := byte(vNondetLen("peer", 1, n+1))
	signer := byte(vNondetLen("signer", 0, n))
	var sig [64]byte
	if vNondetBool("sigvalid") {
		sig[0] = 1
	}
	sig[1] = signer
	info := &p2p.NodeInfo{PubKey: vAuthKey{peer}, SigndPubKey: hex.EncodeToString(sig[:])}
	err := auth(info)
	if err == nil {
		vReach("admitted")
		isVal := cur.HasAddress([]byte{peer})
		signedByCurrentCA := false
		for _, v := range cur.Validators {
			if v.IsCA && v.Address[0] == signer && sig[0] == 1 {
				signedByCurrentCA = true
			}
		}
		vAssert((isVal && !strict) || signedByCurrentCA, "N4-admitted-only-by-current-set")
	} else {
		vReach("refused")
		signedByCurrentCA := false
		for _, v := range cur.Validators {
			if v.IsCA && v.Address[0] == signer && sig[0] == 1 {
				signedByCurrentCA = true
			}
		}
		vAssert(!signedByCurrentCA, "N4-peer-signed-by-current-ca-is-admitted")
	}
}

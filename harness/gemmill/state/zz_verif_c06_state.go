package state

import dbm "github.com/dappledger/AnnChain/gemmill/modules/go-db"

// VerifSetDB gives a hand-built State its database (harness only; injected by overlay).
func VerifSetDB(s *State, db dbm.DB) { s.db = db }

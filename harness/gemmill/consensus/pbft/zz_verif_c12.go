package pbft

// C12 — liveness is a temporal property under fairness and is not decidable by bounded symbolic
// execution. What is decided here are the one-step PROGRESS obligations whose failure is what the
// property text names: a scheduled timeout that would be ignored when it fires, a missed round
// skip, a handler that blocks forever, timeouts that do not grow with the round.

import (
	"bytes"
	"time"

	"github.com/dappledger/AnnChain/gemmill/types"
)

func vC12HRS(cs *ConsensusState) (int64, int64, RoundStepType) { return cs.Height, cs.Round, cs.Step }

func vC12Advanced(h0, r0 int64, s0 RoundStepType, cs *ConsensusState) bool {
	return CompareHRS(cs.Height, cs.Round, cs.Step, h0, r0, s0) > 0
}

// fire delivers the LAST timeout the code scheduled, with the state unchanged since it was scheduled
func vC12Fire(w *vC04World, label string) {
	cs := w.cs
	vAssert(len(w.ticker.scheduled) > 0, label+"-a-timeout-is-scheduled")
	if len(w.ticker.scheduled) == 0 {
		return
	}
	ti := w.ticker.scheduled[len(w.ticker.scheduled)-1]
	vAssert(ti.Height == cs.Height && ti.Round == cs.Round, label+"-timeout-is-for-the-current-round")
	h0, r0, s0 := vC12HRS(cs)
	cs.handleTimeout(ti, cs.RoundState)
	w.drain()
	vAssert(vC12Advanced(h0, r0, s0, cs), label+"-scheduled-timeout-makes-progress")
}

// P1a: the propose timeout scheduled by enterPropose moves the node to Prevote
func VerifHarness_C12_propose_timeout_progress() {
	w := vC04New()
	cs := w.cs
	round := int64(vNondetLen("round", 0, 2))
	if round > 0 {
		w.setRound(round - 1)
		cs.Step = RoundStepPrecommitWait
	} else {
		cs.Step = RoundStepNewHeight
	}
	if vNondetBool("locked") {
		w.lock(vNondetLen("lock", 1, 2), 0)
	}
	// enter the round the way the code does: NewHeight timeout or precommit-wait timeout
	if round == 0 {
		cs.handleTimeout(timeoutInfo{Height: cs.Height, Round: 0, Step: RoundStepNewHeight}, cs.RoundState)
	} else {
		cs.handleTimeout(timeoutInfo{Height: cs.Height, Round: round - 1, Step: RoundStepPrecommitWait}, cs.RoundState)
	}
	w.drain()
	vAssert(cs.Round == round && cs.Step == RoundStepPropose, "P1-entered-propose")
	vReach("in-propose")
	vC12Fire(w, "P1a")
	vAssert(cs.Step >= RoundStepPrevote, "P1a-propose-timeout-leads-to-prevote")
}

// P1b/P1c: +2/3-any prevotes (precommits) schedule the wait timeout, which then moves the node on;
// P2: when those votes are for a later round the node skips to that round.
func VerifHarness_C12_wait_timeouts_and_round_skip() {
	w := vC04New()
	cs := w.cs
	round := int64(vNondetLen("round", 0, 1))
	w.setRound(round)
	cs.Step = RoundStepType(vNondetLen("step", int(RoundStepPropose), int(RoundStepPrecommit)))
	voteRound := round + int64(vNondetLen("ahead", 0, 2))
	vAssume(voteRound <= 2) // the node under test would itself propose in round 3 (order 0,2,3,1)
	typ := byte(types.VoteTypePrevote)
	if vNondetBool("precommits") {
		typ = types.VoteTypePrecommit
	}
	// two votes are in, for different values: no majority for anything
	w.seed(2, voteRound, typ, 1)
	w.seed(3, voteRound, typ, 2)
	h0, r0, s0 := vC12HRS(cs)
	w.sigID++
	third := vVote(0, cs.Height, voteRound, typ, w.id(0), true, w.sigID) // a third, nil vote: +2/3 any
	cs.handleMsg(msgInfo{&VoteMessage{third}, "peer"}, cs.RoundState)
	w.drain()
	vReach("two-thirds-any")
	vAssert(cs.Round == voteRound, "P2-two-thirds-any-of-a-later-round-skips-to-it")
	// a node that skipped rounds must agree with everybody else on who proposes from here on,
	// otherwise it rejects every legitimate proposal for the rest of the height
	vAssert(bytes.Equal(cs.Validators.Proposer().Address, w.scheduledProposer(cs.Round)), "P2-proposer-after-round-skip-is-the-scheduled-one")
	if typ == types.VoteTypePrevote {
		if CompareHRS(cs.Height, voteRound, RoundStepPrevoteWait, h0, r0, s0) > 0 {
			vAssert(cs.Step >= RoundStepPrevoteWait, "P1b-two-thirds-any-prevotes-enter-prevote-wait")
			if cs.Step == RoundStepPrevoteWait {
				vC12Fire(w, "P1b")
				vAssert(cs.Step >= RoundStepPrecommit, "P1b-prevote-wait-timeout-leads-to-precommit")
			}
		}
	} else {
		if CompareHRS(cs.Height, voteRound, RoundStepPrecommitWait, h0, r0, s0) > 0 {
			vAssert(cs.Step >= RoundStepPrecommitWait || cs.Round > voteRound, "P1c-two-thirds-any-precommits-enter-precommit-wait")
			if cs.Step == RoundStepPrecommitWait && cs.Round == voteRound {
				vC12Fire(w, "P1c")
				vAssert(cs.Round == voteRound+1, "P1c-precommit-wait-timeout-starts-next-round")
			}
		}
	}
}

// P1d: +2/3 precommits for nil start the next round at once
func VerifHarness_C12_nil_precommits_next_round() {
	w := vC04New()
	cs := w.cs
	round := int64(vNondetLen("round", 0, 1))
	w.setRound(round)
	cs.Step = RoundStepType(vNondetLen("step", int(RoundStepPropose), int(RoundStepPrecommitWait)))
	w.seed(2, round, types.VoteTypePrecommit, 0)
	w.seed(3, round, types.VoteTypePrecommit, 0)
	w.sigID++
	cs.handleMsg(msgInfo{&VoteMessage{vVote(0, cs.Height, round, types.VoteTypePrecommit, w.id(0), true, w.sigID)}, "peer"}, cs.RoundState)
	w.drain()
	vReach("nil-majority")
	vAssert(cs.Round == round+1, "P1d-nil-precommit-majority-starts-next-round")
	vAssert(bytes.Equal(cs.Validators.Proposer().Address, w.scheduledProposer(cs.Round)), "P1d-proposer-of-next-round-is-the-scheduled-one")
}

// P3: a timeout for the current height/round/step or later is never ignored by handleTimeout
func VerifHarness_C12_handle_timeout_guard() {
	w := vC04New()
	cs := w.cs
	round := int64(vNondetLen("round", 0, 1))
	steps := []RoundStepType{RoundStepNewHeight, RoundStepPropose, RoundStepPrevoteWait, RoundStepPrecommitWait}
	cs.Step = steps[vNondetLen("step", 0, 3)]
	if cs.Step != RoundStepNewHeight {
		w.setRound(round) // at NewHeight the vote set still tracks round 0 only
	}
	if cs.Step == RoundStepPrevoteWait {
		w.seed(0, round, types.VoteTypePrevote, 1)
		w.seed(2, round, types.VoteTypePrevote, 2)
		w.seed(3, round, types.VoteTypePrevote, 0)
	}
	ti := timeoutInfo{Height: cs.Height, Round: round, Step: cs.Step}
	if cs.Step == RoundStepNewHeight {
		ti.Round = 0
		vAssume(round == 0)
	}
	h0, r0, s0 := vC12HRS(cs)
	cs.handleTimeout(ti, cs.RoundState)
	w.drain()
	vReach("timeout-handled")
	vAssert(vC12Advanced(h0, r0, s0, cs), "P3-timeout-for-the-current-step-is-not-ignored")
}

// P5: timeouts do not shrink as rounds go up (non-negative parameters)
func VerifHarness_C12_timeouts_grow() {
	tp := &TimeoutParams{Propose0: int64(vNondetRange("p0", 0, 100000)), ProposeDelta: int64(vNondetRange("pd", 0, 10000)),
		Prevote0: int64(vNondetRange("v0", 0, 100000)), PrevoteDelta: int64(vNondetRange("vd", 0, 10000)),
		Precommit0: int64(vNondetRange("c0", 0, 100000)), PrecommitDelta: int64(vNondetRange("cd", 0, 10000))}
	r := int64(vNondetRange("round", 0, 1000))
	vAssert(tp.Propose(r+1) >= tp.Propose(r) && tp.Propose(r) >= 0, "P5-propose-timeout-grows")
	vAssert(tp.Prevote(r+1) >= tp.Prevote(r) && tp.Prevote(r) >= 0, "P5-prevote-timeout-grows")
	vAssert(tp.Precommit(r+1) >= tp.Precommit(r) && tp.Precommit(r) >= 0, "P5-precommit-timeout-grows")
	vAssert(tp.Propose(r) == time.Duration(tp.Propose0+tp.ProposeDelta*r)*time.Millisecond, "P5-propose-formula")
	vReach("timeouts-computed")
}

// P6: the REAL timeout ticker keeps the newest timeout. Two timeouts are scheduled one after the
// other (any heights, rounds, steps): the second replaces the first unless it is older (lower
// height; same height and lower round; same height and round and not a later step) — in particular
// a round-0 timeout of the NEXT height always replaces a late-round timeout of the previous one.
func VerifHarness_C12_ticker_keeps_newest() {
	steps := []RoundStepType{RoundStepNewHeight, RoundStepPropose, RoundStepPrevoteWait, RoundStepPrecommitWait}
	mk := func(tag string, ms int) timeoutInfo {
		return timeoutInfo{Duration: time.Duration(ms) * time.Millisecond, Height: int64(5 + vNondetLen(tag+".h", 0, 1)),
			Round: int64(vNondetLen(tag+".r", 0, 2)), Step: steps[vNondetLen(tag+".s", 0, 3)]}
	}
	t1, t2 := mk("first", 300), mk("second", 600)
	older := t2.Height < t1.Height || (t2.Height == t1.Height && (t2.Round < t1.Round || (t2.Round == t1.Round && t2.Step <= t1.Step)))
	tt := &timeoutTicker{tickChan: make(chan timeoutInfo, tickTockBufferSize), tockChan: make(chan timeoutInfo, tickTockBufferSize)}
	tt.BaseService = *vNewBase()
	tt.BaseService.Start()
	if vSymbolic() {
		tt.timer = &time.Timer{C: make(chan time.Time)} // Stop / Reset are stubbed: armed timers are counted
	} else {
		tt.timer = time.NewTimer(time.Hour)
	}
	tt.ScheduleTimeout(t1)
	tt.ScheduleTimeout(t2)
	if vSymbolic() {
		close(tt.Quit)
		tt.timeoutRoutine()
		vAssume(len(tt.tickChan) == 0) // only runs that took both ticks before leaving are of interest
		vReach("both-ticks-taken")
		armed := vStubCalls("time.Timer).Reset")
		if older {
			vAssert(armed == 1, "P6-the-newest-scheduled-timeout-is-the-one-kept")
		} else {
			vReach("replaced")
			vAssert(armed == 2, "P6-the-newest-scheduled-timeout-is-the-one-kept")
		}
		return
	}
	go tt.timeoutRoutine()
	// wait for the first timeout to fire, then long enough for a second one (there must be none)
	for i := 0; i < 2000 && len(tt.tockChan) == 0; i++ {
		time.Sleep(5 * time.Millisecond)
	}
	time.Sleep(200 * time.Millisecond)
	close(tt.Quit)
	vReach("both-ticks-taken")
	fired := 0
	var last timeoutInfo
	for len(tt.tockChan) > 0 {
		last = <-tt.tockChan
		fired++
	}
	want := t2
	if older {
		want = t1
	} else {
		vReach("replaced")
	}
	vAssert(fired == 1 && last == want, "P6-the-newest-scheduled-timeout-is-the-one-kept")
}

// P7: a node that holds some OTHER block (an equivocating proposer's, or a later round's proposal)
// when +2/3 precommits for block A arrive drops it and sets itself up to fetch A's parts — otherwise
// it rejects every part of A and stays in the commit step of that height for ever.
func VerifHarness_C12_commit_fetches_the_decided_block() {
	w := vC04New()
	cs := w.cs
	round := int64(vNondetLen("round", 0, 1))
	w.setRound(round)
	cs.Step = RoundStepType(vNondetLen("step", int(RoundStepPropose), int(RoundStepPrecommitWait)))
	held := vNondetLen("held-proposal", 0, 1) // nothing, or the complete other block B
	if held == 1 {
		w.propose(2)
	}
	pcRound := int64(vNondetLen("commit-round", 0, int(round)))
	w.seed(2, pcRound, types.VoteTypePrecommit, 1)
	w.seed(3, pcRound, types.VoteTypePrecommit, 1)
	w.sigID++
	vote := vVote(0, cs.Height, pcRound, types.VoteTypePrecommit, w.idA, true, w.sigID)
	cs.handleMsg(msgInfo{&VoteMessage{vote}, "peer"}, cs.RoundState)
	w.drain()
	vReach("majority-for-A-delivered")
	vAssert(cs.Step == RoundStepCommit && cs.CommitRound == pcRound, "P7-node-enters-commit")
	vAssert(cs.ProposalBlock == nil, "P7-a-block-other-than-the-decided-one-is-dropped")
	vAssert(cs.ProposalBlockParts != nil && cs.ProposalBlockParts.HasHeader(w.idA.PartsHeader), "P7-node-waits-for-the-parts-of-the-decided-block")
}

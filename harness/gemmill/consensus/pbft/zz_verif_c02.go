package pbft

// C02 — every block accepted by ConsensusState.ValidateBlock extends the state and carries a
// verifiable +2/3 commit; ValidateBlock is total (no panic) for every block shape a Byzantine
// proposer can construct.

import (
	"bytes"

	sm "github.com/dappledger/AnnChain/gemmill/state"
	"github.com/dappledger/AnnChain/gemmill/types"
)

// one precommit slot of the embedded last commit
func vC02Slot(i int, st *sm.State, other types.BlockID) (v *types.Vote, counts bool) {
	switch vNondetLen("pc.kind", 0, 9) {
	case 0:
		return nil, false
	case 1: // genuine
		return vVote(i, st.LastBlockHeight, 0, types.VoteTypePrecommit, st.LastBlockID, true, byte(i)), true
	case 2: // bad signature
		return vVote(i, st.LastBlockHeight, 0, types.VoteTypePrecommit, st.LastBlockID, false, byte(i)), false
	case 3: // foreign height
		return vVote(i, st.LastBlockHeight-1, 0, types.VoteTypePrecommit, st.LastBlockID, true, byte(i)), false
	case 4: // a prevote
		return vVote(i, st.LastBlockHeight, 0, types.VoteTypePrevote, st.LastBlockID, true, byte(i)), false
	case 5: // for another block
		return vVote(i, st.LastBlockHeight, 0, types.VoteTypePrecommit, other, true, byte(i)), false
	case 6: // foreign round
		return vVote(i, st.LastBlockHeight, 1, types.VoteTypePrecommit, st.LastBlockID, true, byte(i)), true
	case 8: // signed for the right hash but WITHOUT the part-set header: not the committed block id
		stripped := types.BlockID{Hash: st.LastBlockID.Hash}
		return vVote(i, st.LastBlockHeight, 0, types.VoteTypePrecommit, stripped, true, byte(i)), false
	default: // validator 0's genuine precommit copied into this slot (counts only in its own slot)
		return vVote(0, st.LastBlockHeight, 0, types.VoteTypePrecommit, st.LastBlockID, true, 0), i == 0
	}
}

func VerifHarness_C02_validate_block() {
	n := vParam("N", 3)
	h := vNewCS(n, 5, -1)
	cs := h.cs
	st := cs.state
	if vNondetBool("prior-state-without-hashes") {
		// as at the first height (or with an application that reports no hashes): a block must then
		// carry EMPTY app / receipts hashes — anything else is not what the prior state says
		st.AppHash, st.ReceiptsHash = nil, nil
	}
	other := types.BlockID{Hash: []byte{0x66}, PartsHeader: types.PartSetHeader{Total: 1, Hash: []byte{0x66}}}
	bad := []byte{0xEE, 0xEE}

	// Either exactly one header field / component is wrong (with a genuine commit), or the header is
	// right and the embedded last commit is arbitrary.
	defect := vNondetLen("defect", 0, 15)
	lc := &types.Commit{BlockID: st.LastBlockID, Precommits: make([]*types.Vote, n)}
	signedPower, rounds0, rounds1 := int64(0), 0, 0
	if defect == 0 {
		switch vNondetLen("lc.bid", 0, 2) {
		case 1:
			lc.BlockID = other
		case 2:
			lc.BlockID = types.BlockID{}
		}
		np := vNondetLen("lc.n", 0, n+1)
		lc.Precommits = make([]*types.Vote, np)
		for i := 0; i < np; i++ {
			v, counts := vC02Slot(i, st, other)
			lc.Precommits[i] = v
			if v != nil && v.Round == 0 {
				rounds0++
			}
			if v != nil && v.Round == 1 {
				rounds1++
			}
			if counts && i < n {
				signedPower += st.LastValidators.Validators[i].VotingPower
			}
		}
	} else {
		for i := 0; i < n; i++ {
			lc.Precommits[i] = vVote(i, st.LastBlockHeight, 0, types.VoteTypePrecommit, st.LastBlockID, true, byte(i))
		}
		signedPower = int64(n)
		rounds0 = n
	}
	data := &types.Data{}
	hd := &types.Header{ChainID: vChain, Height: st.LastBlockHeight + 1, NumTxs: 0, LastBlockID: st.LastBlockID,
		AppHash: st.AppHash, ReceiptsHash: st.ReceiptsHash, ValidatorsHash: st.Validators.Hash(),
		ProposerAddress: st.Validators.Validators[0].Address, DataHash: data.Hash(), LastCommitHash: lc.Hash()}
	b := &types.Block{Header: hd, Data: data, LastCommit: lc}
	switch defect {
	case 1:
		hd.ChainID = "other-chain"
	case 2:
		hd.Height++
	case 3:
		hd.NumTxs = 1
	case 4:
		hd.LastBlockID = other
	case 5:
		hd.DataHash = bad
	case 6:
		hd.AppHash = bad
	case 7:
		hd.ReceiptsHash = bad
	case 8:
		hd.LastCommitHash = bad
	case 9:
		hd.ValidatorsHash = bad
	case 10:
		hd.ProposerAddress = []byte{0xEE}
	case 11:
		b.Header = nil
	case 12:
		b.Data = nil
	case 13:
		b.LastCommit = nil
	case 14:
		data.Txs = types.Txs{types.Tx{1}} // data no longer matches DataHash / NumTxs
	case 15:
		hd.LastBlockID = types.BlockID{Hash: st.LastBlockID.Hash} // right hash, part-set header stripped
	}

	err := cs.ValidateBlock(b) // real code; a panic is a finding

	if err == nil {
		vReach("block-accepted")
		vAssert(defect == 0, "block-with-a-wrong-header-field-rejected")
		vAssert(b.Header != nil && b.Data != nil && b.LastCommit != nil, "accepted-block-is-complete")
		if b.Header != nil && b.Data != nil && b.LastCommit != nil {
			vAssert(b.ChainID == vChain && b.Height == st.LastBlockHeight+1 && b.LastBlockID.Equals(st.LastBlockID), "accepted-extends-the-state")
			vAssert(bytes.Equal(b.AppHash, st.AppHash) && bytes.Equal(b.ReceiptsHash, st.ReceiptsHash), "accepted-app-and-receipts-hash")
			vAssert(bytes.Equal(b.DataHash, b.Data.Hash()), "accepted-data-hash-commits-to-data")
			vAssert(bytes.Equal(b.LastCommitHash, b.LastCommit.Hash()), "accepted-last-commit-hash-commits-to-commit")
			vAssert(bytes.Equal(b.ValidatorsHash, st.Validators.Hash()), "accepted-validators-hash-commits-to-validator-set")
			vAssert(st.Validators.HasAddress(b.ProposerAddress), "accepted-proposer-is-validator")
			vAssert(len(lc.Precommits) == n, "accepted-commit-has-one-slot-per-validator")
			vAssert(rounds0 == 0 || rounds1 == 0, "accepted-commit-single-round")
			vAssert(signedPower*3 > st.LastValidators.TotalVotingPower()*2, "accepted-commit-has-two-thirds")
		}
	} else {
		vReach("block-rejected")
		vAssert(!(defect == 0 && len(lc.Precommits) == n && signedPower == int64(n) && rounds1 == 0 && lc.BlockID.Equals(st.LastBlockID)), "genuine-block-accepted")
	}
}

// VerifyCommit(MakeCommit()) for a vote set that reached a precommit majority, and VerifyCommit is
// total on malformed commits (all-nil precommits, wrong sizes).
func VerifHarness_C02_verify_commit_total() {
	n := vParam("N", 3)
	vals := vValSet(n, 1)
	bid := types.BlockID{Hash: []byte{0xA}, PartsHeader: types.PartSetHeader{Total: 1, Hash: []byte{0xA}}}
	c := &types.Commit{BlockID: bid}
	np := vNondetLen("n", 0, n+1)
	c.Precommits = make([]*types.Vote, np)
	good := int64(0)
	for i := 0; i < np; i++ {
		if vNondetBool("nil") {
			continue
		}
		c.Precommits[i] = vVote(i, 7, 0, types.VoteTypePrecommit, bid, vNondetBool("valid"), byte(i))
		if i < n && vSigValid(c.Precommits[i].Signature) {
			good++
		}
	}
	err := vals.VerifyCommit(vChain, bid, 7, c) // a panic is a finding
	if err == nil {
		vReach("commit-verified")
		vAssert(np == n && good*3 > int64(n)*2, "verified-commit-has-two-thirds-valid")
	}
}

// VerifyCommit on its own (the fast-sync path calls it without Commit.ValidateBasic): a commit
// whose slots are each empty, genuine, badly signed, for a foreign height / type / block / round,
// or a copy of validator 0's vote is accepted only if it has one slot per validator, all its
// precommits are from ONE round and genuine precommits for this block carry more than 2/3 of the power.
func VerifHarness_C02_verify_commit_sound() {
	n := vParam("N", 3)
	vals := vValSet(n, 1)
	bid := types.BlockID{Hash: []byte{0xA}, PartsHeader: types.PartSetHeader{Total: 1, Hash: []byte{0xA}}}
	other := types.BlockID{Hash: []byte{0x66}, PartsHeader: types.PartSetHeader{Total: 1, Hash: []byte{0x66}}}
	st := &sm.State{LastBlockHeight: 7, LastBlockID: bid}
	c := &types.Commit{BlockID: bid}
	np := vNondetLen("n", n-1, n+1)
	c.Precommits = make([]*types.Vote, np)
	power, rounds0, rounds1 := 0, 0, 0
	for i := 0; i < np; i++ {
		v, counts := vC02Slot(i, st, other)
		c.Precommits[i] = v
		if v != nil && v.Round == 0 {
			rounds0++
		}
		if v != nil && v.Round == 1 {
			rounds1++
		}
		if counts && i < n {
			power++
		}
	}
	err := vals.VerifyCommit(vChain, bid, 7, c) // a panic is a finding
	if err == nil {
		vReach("commit-verified")
		vAssert(np == n, "verified-commit-has-one-slot-per-validator")
		vAssert(rounds0 == 0 || rounds1 == 0, "verified-commit-is-from-a-single-round")
		vAssert(power*3 > n*2, "verified-commit-has-two-thirds-genuine-precommits-for-the-block")
	} else {
		vReach("commit-rejected")
		vAssert(!(np == n && power == n && rounds1 == 0), "genuine-commit-verifies")
	}
}

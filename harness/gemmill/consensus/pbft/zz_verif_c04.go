package pbft

// C04 — locking discipline. One real step (a timeout or a peer vote, followed by the node's own
// queued messages) from a constructed state with real vote sets; the votes the node signs and the
// way its lock changes must follow the proof-of-lock rules.

import (
	"bytes"

	"github.com/dappledger/AnnChain/gemmill/types"
)

const vMe = 1 // the node under test is validator index 1 of 4 (validator 0 proposes round 0)

type vC04World struct {
	*vCS
	blkA, blkB   *types.Block
	partsA, partsB *types.PartSet
	idA, idB     types.BlockID
	sigID        byte
	vals0        *types.ValidatorSet // the validator set as of round 0 of this height
}

func vC04New() *vC04World {
	w := &vC04World{vCS: vNewCS(4, 5, vMe)}
	w.blkA, w.blkB = vBlock(5, 0xA), vBlock(5, 0xB)
	w.blkA.ValidatorsHash, w.blkB.ValidatorsHash = []byte{1}, []byte{1}
	w.partsA = types.NewPartSetFromHeader(types.PartSetHeader{Total: 1, Hash: []byte{0xA}})
	w.partsB = types.NewPartSetFromHeader(types.PartSetHeader{Total: 1, Hash: []byte{0xB}})
	w.idA = types.BlockID{Hash: w.blkA.Hash(), PartsHeader: w.partsA.Header()}
	w.idB = types.BlockID{Hash: w.blkB.Hash(), PartsHeader: w.partsB.Header()}
	w.cs.Step = RoundStepPropose
	// proposer order 0, 2, 3, 1: the node under test (1) does not propose in rounds 0..2, so the
	// harness never has to fabricate a proposal block of its own
	for i, a := range []int64{0, -3, -1, -2} {
		w.cs.Validators.Validators[i].Accum = a
	}
	w.vals0 = w.cs.Validators.Copy()
	return w
}

// which: 0 nil-block, 1 A, 2 B
func (w *vC04World) id(which int) types.BlockID {
	switch which {
	case 1:
		return w.idA
	case 2:
		return w.idB
	}
	return types.BlockID{}
}

func (w *vC04World) which(b types.BlockID) int {
	if b.Equals(w.idA) {
		return 1
	}
	if b.Equals(w.idB) {
		return 2
	}
	if len(b.Hash) == 0 {
		return 0
	}
	return -1
}

func (w *vC04World) blockOf(which int) (*types.Block, *types.PartSet) {
	switch which {
	case 1:
		return w.blkA, w.partsA
	case 2:
		return w.blkB, w.partsB
	}
	return nil, nil
}

// put a peer's vote straight into the height vote set (pre-state construction)
func (w *vC04World) seed(val int, round int64, typ byte, which int) {
	w.sigID++
	added, err := w.cs.Votes.AddVote(vVote(val, w.cs.Height, round, typ, w.id(which), true, w.sigID), "peer")
	vAssume(added && err == nil)
}

func (w *vC04World) setRound(r int64) {
	w.cs.Round = r
	if r > 0 {
		w.cs.Votes.SetRound(r + 1)
		cp := w.cs.Validators.Copy()
		cp.IncrementAccum(r)
		w.cs.Validators = cp
	} else {
		w.cs.Votes.SetRound(1)
	}
}

// the proposer every replica computes for round r of this height
func (w *vC04World) scheduledProposer(r int64) []byte {
	cp := w.vals0.Copy()
	if r > 0 {
		cp.IncrementAccum(r)
	}
	return cp.Proposer().Address
}

func (w *vC04World) lock(which int, round int64) {
	b, p := w.blockOf(which)
	w.cs.LockedBlock, w.cs.LockedBlockParts, w.cs.LockedRound = b, p, round
}

func (w *vC04World) propose(which int) {
	b, p := w.blockOf(which)
	if b == nil {
		return
	}
	w.cs.Proposal = types.NewProposal(w.cs.Height, w.cs.Round, p.Header(), -1, types.BlockID{})
	w.cs.ProposalBlock, w.cs.ProposalBlockParts = b, p
}

// drain: the node's own messages are handled by the same goroutine, in order
func (w *vC04World) drain() {
	for i := 0; i < 16 && len(w.cs.internalMsgQueue) > 0; i++ {
		mi := <-w.cs.internalMsgQueue
		w.cs.handleMsg(mi, w.cs.RoundState)
	}
}

func (w *vC04World) polka(round int64) (int, bool) {
	vs := w.cs.Votes.Prevotes(round)
	if vs == nil {
		return -1, false
	}
	id, ok := vs.TwoThirdsMajority()
	if !ok {
		return -1, false
	}
	return w.which(id), true
}

func (w *vC04World) lockedWhich() int {
	switch w.cs.LockedBlock {
	case nil:
		return 0
	case w.blkA:
		return 1
	case w.blkB:
		return 2
	}
	return -1
}

// rules that hold after every step
func (w *vC04World) checkSigned(preRound int64, preStep RoundStepType, preLock int, preLockRound int64) {
	cs := w.cs
	nPrevote, nPrecommit := map[int64]int{}, map[int64]int{}
	for _, v := range w.signer.votes {
		if v.Type == types.VoteTypePrevote {
			nPrevote[v.Round]++
		} else {
			nPrecommit[v.Round]++
			if len(v.BlockID.Hash) != 0 {
				// R2: a block is precommitted only on a polka for it in that very round, and the node is then locked on it
				pw, ok := w.polka(v.Round)
				vAssert(ok && pw == w.which(v.BlockID), "R2-precommit-only-with-polka-of-that-round")
			}
		}
	}
	for r, c := range nPrevote {
		vAssert(c <= 1, "R5-one-prevote-per-round")
		if r == preRound {
			vAssert(preStep < RoundStepPrevote, "R5-no-second-prevote-in-a-round-already-prevoted")
		}
	}
	for r, c := range nPrecommit {
		vAssert(c <= 1, "R5-one-precommit-per-round")
		if r == preRound {
			vAssert(preStep < RoundStepPrecommit, "R5-no-second-precommit-in-a-round-already-precommitted")
		}
	}
	// R3: the lock is given up (or moved to another block) only on a polka for something else in a
	// round after the lock round and not after the current round
	post := w.lockedWhich()
	if preLock != 0 && post != preLock {
		justified := false
		for r := preLockRound + 1; r <= cs.Round; r++ {
			if pw, ok := w.polka(r); ok && pw != preLock {
				justified = true
			}
		}
		// the lock may also move/clear in the lock round itself only through a polka of that same round for something else
		if pw, ok := w.polka(preLockRound); ok && pw != preLock && preLockRound == cs.Round {
			justified = true
		}
		vAssert(justified, "R3-lock-released-only-on-later-polka-for-something-else")
	}
	if post != 0 && post != preLock {
		pw, ok := w.polka(cs.LockedRound)
		vAssert(ok && pw == post, "R2-new-lock-has-polka-in-lock-round")
	}
	// R4: commit only on +2/3 precommits for one block in one round
	if cs.Step == RoundStepCommit {
		id, ok := cs.Votes.Precommits(cs.CommitRound).TwoThirdsMajority()
		vAssert(ok && len(id.Hash) != 0, "R4-commit-only-on-precommit-majority")
	}
}

// R1: entering prevote. Locked => prevote the locked block; else a valid proposal; else nil.
func VerifHarness_C04_prevote_rule() {
	w := vC04New()
	cs := w.cs
	w.setRound(int64(vNondetLen("round", 0, 1)))
	lock := vNondetLen("lock", 0, 2)
	if lock != 0 {
		w.lock(lock, 0)
		// a lock exists only with the polka that created it
		for _, v := range []int{0, 2, 3} {
			w.seed(v, 0, types.VoteTypePrevote, lock)
		}
	}
	prop := vNondetLen("proposal", 0, 2)
	w.propose(prop)
	valid := vNondetBool("proposal-valid")
	if b, _ := w.blockOf(prop); b != nil {
		w.ver.verdict[b] = valid
	}
	cs.handleTimeout(timeoutInfo{Height: cs.Height, Round: cs.Round, Step: RoundStepPropose}, cs.RoundState)
	w.drain()
	vAssert(len(w.signer.votes) >= 1 && w.signer.votes[0].Type == types.VoteTypePrevote, "R1-a-prevote-is-cast")
	if len(w.signer.votes) >= 1 {
		pv := w.signer.votes[0]
		vReach("prevoted")
		switch {
		case lock != 0:
			vAssert(w.which(pv.BlockID) == lock, "R1-locked-node-prevotes-locked-block")
		case prop != 0 && valid:
			vAssert(w.which(pv.BlockID) == prop, "R1-unlocked-node-prevotes-valid-proposal")
		default:
			vAssert(len(pv.BlockID.Hash) == 0, "R1-otherwise-prevote-nil")
		}
		if prop != 0 && lock == 0 {
			b, _ := w.blockOf(prop)
			asked := false
			for _, a := range w.ver.asked {
				asked = asked || a == b
			}
			vAssert(asked, "proposal-validated-before-prevote")
		}
	}
	w.checkSigned(cs.Round, RoundStepPropose, lock, 0)
}

// R2/R3: entering precommit with an arbitrary prevote set of the current round.
func VerifHarness_C04_precommit_rule() {
	w := vC04New()
	cs := w.cs
	round := int64(vNondetLen("round", 0, 1))
	w.setRound(round)
	cs.Step = RoundStepPrevoteWait
	lock := vNondetLen("lock", 0, 2)
	lockRound := int64(0)
	if lock != 0 {
		lockRound = int64(vNondetLen("lockround", 0, int(round)))
		w.lock(lock, lockRound)
	}
	prop := vNondetLen("proposal", 0, 2)
	w.propose(prop)
	if b, _ := w.blockOf(prop); b != nil {
		w.ver.verdict[b] = true // it was validated before it could gather a polka from honest nodes
	}
	// an EARLIER round may have had a polka (for the locked block, or for some block while the node is
	// unlocked): it must not count as this round's polka
	if round == 1 {
		if e := vNondetLen("polka-in-round-0", 0, 2); e != 0 {
			vAssume(lock == 0 || (lock == e && lockRound == 0))
			for _, v := range []int{0, 2, 3} {
				w.seed(v, 0, types.VoteTypePrevote, e)
			}
			vReach("earlier-polka")
		}
	}
	// prevotes of the current round: each peer voted nil / A / B / nothing
	for _, v := range []int{0, 2, 3} {
		if k := vNondetLen("prevote", -1, 2); k >= 0 {
			w.seed(v, round, types.VoteTypePrevote, k)
		}
	}
	// a lock made in this very round is backed by this round's polka
	if lock != 0 && lockRound == round {
		pw, ok := w.polka(round)
		vAssume(ok && pw == lock)
	}
	// and an older lock has not been invalidated by a polka in between (that would have unlocked already)
	cs.handleTimeout(timeoutInfo{Height: cs.Height, Round: round, Step: RoundStepPrevoteWait}, cs.RoundState)
	w.drain()
	vReach("precommit-step-done")
	var pc *types.Vote
	for _, v := range w.signer.votes {
		if v.Type == types.VoteTypePrecommit && v.Round == round {
			pc = v
		}
	}
	vAssert(pc != nil, "a-precommit-is-cast")
	pw, ok := w.polka(round)
	if pc != nil {
		switch {
		case !ok:
			vAssert(len(pc.BlockID.Hash) == 0, "R2-no-polka-precommit-nil")
			vAssert(w.lockedWhich() == lock, "R3-no-polka-keeps-lock")
		case pw == 0:
			vAssert(len(pc.BlockID.Hash) == 0 && w.lockedWhich() == 0, "R3-nil-polka-unlocks-and-precommits-nil")
		case pw == lock || pw == prop:
			vReach("locked-on-polka")
			vAssert(w.which(pc.BlockID) == pw && w.lockedWhich() == pw && cs.LockedRound == round, "R2-polka-locks-and-precommits-block")
		default:
			vAssert(len(pc.BlockID.Hash) == 0 && w.lockedWhich() == 0, "R3-polka-for-unknown-block-unlocks-precommits-nil")
		}
	}
	w.checkSigned(round, RoundStepPrevoteWait, lock, lockRound)
}

// R3: one more prevote arrives (any round, incl. stale and future ones) at a locked node.
func VerifHarness_C04_unlock_rule() {
	w := vC04New()
	cs := w.cs
	round := int64(vNondetLen("round", 0, 2))
	w.setRound(round)
	cs.Step = RoundStepType(vNondetLen("step", int(RoundStepPropose), int(RoundStepPrecommitWait)))
	lock := vNondetLen("lock", 1, 2)
	lockRound := int64(vNondetLen("lockround", 0, int(round)))
	w.lock(lock, lockRound)
	// the polka that made the lock (peers 0, 2 and the node itself)
	w.seed(0, lockRound, types.VoteTypePrevote, lock)
	w.seed(2, lockRound, types.VoteTypePrevote, lock)
	w.seed(vMe, lockRound, types.VoteTypePrevote, lock)
	// some other round holds two prevotes for another value: one vote short of a polka
	otherRound := int64(vNondetLen("otherround", 0, 2))
	vAssume(otherRound != lockRound)
	other := vNondetLen("other", 0, 2)
	vAssume(other != lock)
	if otherRound > round+1 {
		cs.Votes.SetRound(otherRound) // tracked as a catch-up round
	}
	w.seed(2, otherRound, types.VoteTypePrevote, other)
	w.seed(3, otherRound, types.VoteTypePrevote, other)
	// a consistent pre-state: no polka for something else already sits in (lockRound, round]
	preStep := cs.Step
	// the delayed / early prevote that completes it
	w.sigID++
	vote := vVote(0, cs.Height, otherRound, types.VoteTypePrevote, w.id(other), true, w.sigID)
	cs.handleMsg(msgInfo{&VoteMessage{vote}, "peer"}, cs.RoundState)
	w.drain()
	vReach("vote-delivered")
	pw, ok := w.polka(otherRound)
	vAssert(ok && pw == other, "polka-completed")
	if lockRound < otherRound && otherRound <= round {
		vAssert(w.lockedWhich() == 0, "R3-later-polka-for-something-else-unlocks")
	}
	if otherRound < lockRound {
		vReach("stale-polka")
		vAssert(w.lockedWhich() == lock && cs.LockedRound == lockRound, "R3-stale-polka-does-not-unlock")
	}
	w.checkSigned(round, preStep, lock, lockRound)
}

// R4: one more precommit arrives; the node moves to commit only on +2/3 for one block in one round.
func VerifHarness_C04_commit_rule() {
	w := vC04New()
	cs := w.cs
	round := int64(vNondetLen("round", 0, 1))
	w.setRound(round)
	cs.Step = RoundStepType(vNondetLen("step", int(RoundStepPropose), int(RoundStepPrecommitWait)))
	// no proposal block at hand: the node enters Commit and waits for the block (finalisation, which
	// needs the block store and the application, is C06's subject)
	pcRound := int64(vNondetLen("pcround", 0, 1))
	for _, v := range []int{2, 3} {
		if k := vNondetLen("precommit", -1, 2); k >= 0 {
			w.seed(v, pcRound, types.VoteTypePrecommit, k)
		}
	}
	preStep := cs.Step
	w.sigID++
	k := vNondetLen("new.precommit", 0, 2)
	vote := vVote(0, cs.Height, pcRound, types.VoteTypePrecommit, w.id(k), vNondetBool("new.valid"), w.sigID)
	cs.handleMsg(msgInfo{&VoteMessage{vote}, "peer"}, cs.RoundState)
	w.drain()
	vReach("precommit-delivered")
	id, ok := cs.Votes.Precommits(pcRound).TwoThirdsMajority()
	if cs.Step == RoundStepCommit {
		vReach("committing")
		vAssert(ok && len(id.Hash) != 0 && cs.CommitRound == pcRound, "R4-commit-round-has-the-majority")
	} else {
		vAssert(!(ok && len(id.Hash) != 0) || cs.Height != 5, "R4-majority-for-a-block-moves-to-commit")
	}
	w.checkSigned(round, preStep, 0, 0)
}

// proposer with a lock proposes the locked block together with the POL round
func VerifHarness_C04_proposer_rule() {
	w := &vC04World{vCS: vNewCS(4, 5, 0)} // validator 0 proposes round 0
	w.blkA, w.blkB = vBlock(5, 0xA), vBlock(5, 0xB)
	w.blkA.ValidatorsHash, w.blkB.ValidatorsHash = []byte{1}, []byte{1}
	w.partsA = types.NewPartSetFromHeader(types.PartSetHeader{Total: 1, Hash: []byte{0xA}})
	w.partsB = types.NewPartSetFromHeader(types.PartSetHeader{Total: 1, Hash: []byte{0xB}})
	w.idA = types.BlockID{Hash: w.blkA.Hash(), PartsHeader: w.partsA.Header()}
	w.idB = types.BlockID{Hash: w.blkB.Hash(), PartsHeader: w.partsB.Header()}
	cs := w.cs
	cs.Step = RoundStepNewHeight
	lock := vNondetLen("lock", 1, 2)
	w.lock(lock, 0)
	cs.handleTimeout(timeoutInfo{Height: cs.Height, Round: 0, Step: RoundStepNewHeight}, cs.RoundState)
	vReach("proposed")
	vAssert(len(w.signer.proposals) == 1, "locked-proposer-proposes")
	if len(w.signer.proposals) == 1 {
		p := w.signer.proposals[0]
		_, parts := w.blockOf(lock)
		vAssert(p.BlockPartsHeader.Equals(parts.Header()), "R1-locked-proposer-proposes-locked-block")
		vAssert(p.Height == cs.Height && p.Round == 0, "proposal-for-current-round")
	}
	_ = bytes.Equal
}

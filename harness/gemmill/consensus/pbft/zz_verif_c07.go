package pbft

// C07 — WAL: every input is logged (and flushed) BEFORE it is handled, every step the node takes is
// logged too (also while replaying), and replay cannot make the node contradict itself.
// Decided on one real iteration of receiveRoutine; byte-level WAL contents, file rotation,
// truncated records and the JSON codec are outside.

import (
	"bytes"
	"io/ioutil"
	"os"
	"time"

	"github.com/dappledger/AnnChain/gemmill/types"
)

type vC07 struct {
	*vC04World
	dir   string
	base  int
	light bool
	seenAtEffect []int // WAL records present when an observable effect of handling happened
}

func (w *vC07) walRecords() int {
	if vSymbolic() {
		// a record counts once it has been written AND flushed
		wl, fl := vStubCalls("go-autofile.Group).WriteLine"), vStubCalls("go-autofile.Group).Flush")
		if fl < wl {
			return fl
		}
		return wl
	}
	b, err := ioutil.ReadFile(w.dir + "/wal")
	if err != nil {
		return -1000
	}
	return bytes.Count(b, []byte("\n")) - w.base
}

func vC07New(light bool) *vC07 {
	w := &vC07{vC04World: vC04New(), light: light}
	cs := w.cs
	if vSymbolic() {
		cs.wal = &WAL{light: light}
		cs.wal.BaseService = *vNewBase()
		cs.wal.BaseService.Start()
	} else {
		dir, _ := ioutil.TempDir("", "verif-c07-")
		w.dir = dir
		wal, err := NewWAL(dir, light)
		if err != nil {
			panic(err)
		}
		cs.wal = wal
		w.base = 0
		w.base = w.walRecords()
	}
	// effects of handling an input are observed at the seams the handlers go through
	orig := cs.setProposal
	cs.setProposal = func(p *types.Proposal) error {
		w.seenAtEffect = append(w.seenAtEffect, w.walRecords())
		return orig(p)
	}
	prevote := cs.doPrevote
	cs.doPrevote = func(h, r int64) {
		w.seenAtEffect = append(w.seenAtEffect, w.walRecords())
		prevote(h, r)
	}
	w.evsw.onFire = func(string) { w.seenAtEffect = append(w.seenAtEffect, w.walRecords()) }
	return w
}

func (w *vC07) cleanup() {
	if w.dir != "" {
		os.RemoveAll(w.dir)
	}
}

// one real iteration of the consensus goroutine
func (w *vC07) step() {
	cs := w.cs
	if vSymbolic() {
		close(cs.Quit) // after the queued input the routine finds Quit and leaves
		cs.receiveRoutine(0)
	} else {
		go cs.receiveRoutine(0)
		time.Sleep(150 * time.Millisecond)
		close(cs.Quit)
		<-cs.done
	}
}

// W1: log-before-handle for the three kinds of input, in normal and light mode
func VerifHarness_C07_log_before_handle() {
	light := vNondetBool("light")
	w := vC07New(light)
	defer w.cleanup()
	cs := w.cs
	cs.BaseService = *vNewBase()
	w.setRound(0)
	cs.Step = RoundStepPropose
	kind := vNondetLen("input", 0, 3)
	fromPeer := false
	switch kind {
	case 0: // a peer's proposal (validator 0 proposes round 0)
		p := types.NewProposal(cs.Height, 0, w.partsA.Header(), -1, types.BlockID{})
		p.Signature = vSign(0, types.SignBytes(vChain, p), true, 9)
		cs.peerMsgQueue <- msgInfo{&ProposalMessage{p}, "peer"}
		fromPeer = true
	case 1: // a peer's prevote
		cs.peerMsgQueue <- msgInfo{&VoteMessage{vVote(2, cs.Height, 0, types.VoteTypePrevote, w.idA, true, 3)}, "peer"}
		fromPeer = true
	case 2: // our own vote coming back through the internal queue
		cs.internalMsgQueue <- msgInfo{&VoteMessage{vVote(vMe, cs.Height, 0, types.VoteTypePrevote, w.idA, true, 4)}, ""}
	case 3: // the propose timeout
		w.ticker.ch <- timeoutInfo{Duration: 1, Height: cs.Height, Round: 0, Step: RoundStepPropose}
	}
	steps0 := cs.nSteps
	w.step()
	if vSymbolic() {
		// the engine may pick the Quit case first; only runs that handled the input are of interest
		vAssume(len(cs.peerMsgQueue) == 0 && len(cs.internalMsgQueue) == 0 && len(w.ticker.ch) == 0)
	}
	vReach("input-handled")
	logged := 1
	if light && fromPeer {
		logged = 0 // light mode skips peer messages by design
	}
	// every effect of handling happened with the input already on disk
	for _, seen := range w.seenAtEffect {
		vAssert(seen >= logged, "W1-input-logged-and-flushed-before-any-effect")
	}
	if kind != 0 || true {
		vAssert(len(w.seenAtEffect) > 0 || kind == 1 || kind == 2, "W1-effects-observed")
	}
	// every step the node took is in the log as well
	// (the node's own messages it already took from its internal queue are inputs too)
	own := len(w.signer.votes) - len(cs.internalMsgQueue)
	vAssert(w.walRecords() == logged+own+(cs.nSteps-steps0), "W1-one-record-per-input-and-per-step")
}

// the same while replaying: steps are still logged (the log must contain the next height's marker
// and steps when replay itself advances), and a refusing signer is tolerated silently
func VerifHarness_C07_replay_mode() {
	w := vC07New(false)
	defer w.cleanup()
	cs := w.cs
	cs.BaseService = *vNewBase()
	w.setRound(0)
	cs.Step = RoundStepPropose
	cs.replayMode = true
	w.signer.refuse = vNondetBool("signer-refuses") // the signer already signed this H/R/S before the crash
	w.ticker.ch <- timeoutInfo{Duration: 1, Height: cs.Height, Round: 0, Step: RoundStepPropose}
	steps0 := cs.nSteps
	w.step()
	if vSymbolic() {
		vAssume(len(w.ticker.ch) == 0)
	}
	vReach("replayed-input-handled")
	vAssert(cs.Step == RoundStepPrevote, "W2-replay-advances-the-step")
	vAssert(cs.nSteps > steps0, "W2-step-taken")
	own := len(w.signer.votes) - len(cs.internalMsgQueue)
	vAssert(w.walRecords() == 1+own+(cs.nSteps-steps0), "W2-steps-are-logged-during-replay-too")
	if w.signer.refuse {
		vAssert(len(cs.internalMsgQueue) == 0 && len(w.signer.votes) == 0, "W2-refused-signature-emits-nothing")
	} else {
		vAssert(len(w.signer.votes) == 1, "W2-one-prevote-signed")
	}
}

package pbft

// C07 — WAL: every input is logged (and flushed) BEFORE it is handled, every step the node takes is
// logged too (also while replaying), and replay cannot make the node contradict itself.
// Decided on one real iteration of receiveRoutine; byte-level WAL contents, file rotation,
// truncated records and the JSON codec are outside.

import (
	"bytes"
	"io"
	"io/ioutil"
	"os"
	"time"

	bc "github.com/dappledger/AnnChain/gemmill/blockchain"
	auto "github.com/dappledger/AnnChain/gemmill/modules/go-autofile"
	dbm "github.com/dappledger/AnnChain/gemmill/modules/go-db"
	"github.com/dappledger/AnnChain/gemmill/types"
	"github.com/spf13/viper"
)

type vC07 struct {
	*vC04World
	dir   string
	base  int
	light bool
	seenAtEffect []int // WAL records present when an observable effect of handling happened
}

func (w *vC07) walRecords() int {
	if vSymbolic() {
		// a record counts once it has been written AND flushed
		wl, fl := vStubCalls("go-autofile.Group).WriteLine"), vStubCalls("go-autofile.Group).Flush")
		if fl < wl {
			return fl
		}
		return wl
	}
	b, err := ioutil.ReadFile(w.dir + "/wal")
	if err != nil {
		return -1000
	}
	return bytes.Count(b, []byte("\n")) - w.base
}

func vC07New(light bool) *vC07 {
	w := &vC07{vC04World: vC04New(), light: light}
	cs := w.cs
	if vSymbolic() {
		cs.wal = &WAL{light: light}
		cs.wal.BaseService = *vNewBase()
		cs.wal.BaseService.Start()
	} else {
		dir, _ := ioutil.TempDir("", "verif-c07-")
		w.dir = dir
		wal, err := NewWAL(dir, light)
		if err != nil {
			panic(err)
		}
		cs.wal = wal
		w.base = 0
		w.base = w.walRecords()
	}
	// effects of handling an input are observed at the seams the handlers go through
	orig := cs.setProposal
	cs.setProposal = func(p *types.Proposal) error {
		w.seenAtEffect = append(w.seenAtEffect, w.walRecords())
		return orig(p)
	}
	prevote := cs.doPrevote
	cs.doPrevote = func(h, r int64) {
		w.seenAtEffect = append(w.seenAtEffect, w.walRecords())
		prevote(h, r)
	}
	w.evsw.onFire = func(string) { w.seenAtEffect = append(w.seenAtEffect, w.walRecords()) }
	return w
}

func (w *vC07) cleanup() {
	if w.dir != "" {
		os.RemoveAll(w.dir)
	}
}

// one real iteration of the consensus goroutine
func (w *vC07) step() {
	cs := w.cs
	if vSymbolic() {
		close(cs.Quit) // after the queued input the routine finds Quit and leaves
		cs.receiveRoutine(0)
	} else {
		go cs.receiveRoutine(0)
		// wait until every queue has been empty for a while (not a fixed sleep: the machine may be loaded)
		quiet := 0
		for i := 0; i < 2000 && quiet < 20; i++ {
			if len(cs.peerMsgQueue) == 0 && len(cs.internalMsgQueue) == 0 && len(w.ticker.ch) == 0 {
				quiet++
			} else {
				quiet = 0
			}
			time.Sleep(5 * time.Millisecond)
		}
		close(cs.Quit)
		<-cs.done
	}
}

// W1: log-before-handle for the three kinds of input, in normal and light mode
func VerifHarness_C07_log_before_handle() {
	light := vNondetBool("light")
	w := vC07New(light)
	defer w.cleanup()
	cs := w.cs
	cs.BaseService = *vNewBase()
	w.setRound(0)
	cs.Step = RoundStepPropose
	kind := vNondetLen("input", 0, 3)
	fromPeer := false
	switch kind {
	case 0: // a peer's proposal (validator 0 proposes round 0)
		p := types.NewProposal(cs.Height, 0, w.partsA.Header(), -1, types.BlockID{})
		p.Signature = vSign(0, types.SignBytes(vChain, p), true, 9)
		cs.peerMsgQueue <- msgInfo{&ProposalMessage{p}, "peer"}
		fromPeer = true
	case 1: // a peer's prevote
		cs.peerMsgQueue <- msgInfo{&VoteMessage{vVote(2, cs.Height, 0, types.VoteTypePrevote, w.idA, true, 3)}, "peer"}
		fromPeer = true
	case 2: // our own vote coming back through the internal queue
		cs.internalMsgQueue <- msgInfo{&VoteMessage{vVote(vMe, cs.Height, 0, types.VoteTypePrevote, w.idA, true, 4)}, ""}
	case 3: // the propose timeout
		w.ticker.ch <- timeoutInfo{Duration: 1, Height: cs.Height, Round: 0, Step: RoundStepPropose}
	}
	steps0 := cs.nSteps
	w.step()
	if vSymbolic() {
		// the engine may pick the Quit case first; only runs that handled the input are of interest
		vAssume(len(cs.peerMsgQueue) == 0 && len(cs.internalMsgQueue) == 0 && len(w.ticker.ch) == 0)
	}
	vReach("input-handled")
	logged := 1
	if light && fromPeer {
		logged = 0 // light mode skips peer messages by design
	}
	// every effect of handling happened with the input already on disk
	for _, seen := range w.seenAtEffect {
		vAssert(seen >= logged, "W1-input-logged-and-flushed-before-any-effect")
	}
	if kind != 0 || true {
		vAssert(len(w.seenAtEffect) > 0 || kind == 1 || kind == 2, "W1-effects-observed")
	}
	// every step the node took is in the log as well
	// (the node's own messages it already took from its internal queue are inputs too)
	own := len(w.signer.votes) - len(cs.internalMsgQueue)
	vAssert(w.walRecords() == logged+own+(cs.nSteps-steps0), "W1-one-record-per-input-and-per-step")
}

// the same while replaying: steps are still logged (the log must contain the next height's marker
// and steps when replay itself advances), and a refusing signer is tolerated silently
func VerifHarness_C07_replay_mode() {
	w := vC07New(false)
	defer w.cleanup()
	cs := w.cs
	cs.BaseService = *vNewBase()
	w.setRound(0)
	cs.Step = RoundStepPropose
	cs.replayMode = true
	w.signer.refuse = vNondetBool("signer-refuses") // the signer already signed this H/R/S before the crash
	w.ticker.ch <- timeoutInfo{Duration: 1, Height: cs.Height, Round: 0, Step: RoundStepPropose}
	steps0 := cs.nSteps
	w.step()
	if vSymbolic() {
		vAssume(len(w.ticker.ch) == 0)
	}
	vReach("replayed-input-handled")
	vAssert(cs.Step == RoundStepPrevote, "W2-replay-advances-the-step")
	vAssert(cs.nSteps > steps0, "W2-step-taken")
	own := len(w.signer.votes) - len(cs.internalMsgQueue)
	vAssert(w.walRecords() == 1+own+(cs.nSteps-steps0), "W2-steps-are-logged-during-replay-too")
	if w.signer.refuse {
		vAssert(len(cs.internalMsgQueue) == 0 && len(w.signer.votes) == 0, "W2-refused-signature-emits-nothing")
	} else {
		vAssert(len(w.signer.votes) == 1, "W2-one-prevote-signed")
	}
}

// the lines appended to the WAL by the code under test (engine: arguments of the stubbed
// Group.WriteLine; natively: the real file)
func (w *vC07) walLines() []string {
	var lines []string
	if vSymbolic() {
		n := vStubCalls("go-autofile.Group).WriteLine")
		for k := 0; k < n; k++ {
			lines = append(lines, vStubArgString("go-autofile.Group).WriteLine", k, 1))
		}
		return lines
	}
	b, err := ioutil.ReadFile(w.dir + "/wal")
	if err != nil {
		return nil
	}
	all := bytes.Split(bytes.TrimSuffix(b, []byte("\n")), []byte("\n"))
	for _, l := range all[w.base:] {
		lines = append(lines, string(l))
	}
	return lines
}

// W3: when the node moves to the next height, the "#HEIGHT: h+1" marker goes into the log right before
// the NewHeight step record — in normal operation AND when the move happens during replay (a commit
// completed by replayed votes): without the marker a later restart cannot find the records of h+1.
func VerifHarness_C07_height_marker() {
	w := vC07New(vNondetBool("light"))
	defer w.cleanup()
	cs := w.cs
	cs.BaseService = *vNewBase()
	cs.config = viper.New()
	if vSymbolic() {
		vSetStub("Viper).GetString", vChain)
	} else {
		cs.config.Set("chain_id", vChain)
	}
	w.setRound(0)
	cs.Step = RoundStepCommit
	cs.CommitRound = 0
	w.seed(0, 0, types.VoteTypePrecommit, 1)
	w.seed(2, 0, types.VoteTypePrecommit, 1)
	w.seed(3, 0, types.VoteTypePrecommit, 1)
	cs.replayMode = vNondetBool("replaying")
	next := *cs.state
	next.LastBlockHeight = cs.Height
	before := len(w.walLines())
	cs.updateToState(&next)
	vReach("moved-to-next-height")
	vAssert(cs.Height == 6 && cs.Step == RoundStepNewHeight, "W3-node-at-next-height")
	lines := w.walLines()[before:]
	markers, at := 0, -1
	for i, l := range lines {
		if l == "#HEIGHT: 6" {
			markers++
			at = i
		}
	}
	vAssert(markers == 1, "W3-next-height-marker-written-exactly-once")
	vAssert(len(lines) == 2 && at == 0 && lines[1] != "#HEIGHT: 6", "W3-marker-precedes-the-new-height-step-record")
}

// W4: a restarted node rebuilds the previous height's commit from the seen-commit stored with the
// block: for every committed vote pattern (each validator precommitted the block, nil, or nothing;
// more than 2/3 for the block; commit round 0 or 1) the rebuilt vote set holds exactly the stored
// precommits, has the same +2/3 majority, and the reconstruction does not panic.
func VerifHarness_C07_reconstruct_last_commit() {
	h := vNewCS(4, 2, vMe)
	cs := h.cs
	cs.config = viper.New()
	if vSymbolic() {
		vSetStub("Viper).GetString", vChain)
	} else {
		cs.config.Set("chain_id", vChain)
	}
	round := int64(vNondetLen("commit-round", 0, 1))
	bid := cs.state.LastBlockID
	if vNondetBool("validator-set-changed-by-last-block") {
		// the committed block changed the validator set: the commit is still one of the OLD set
		next := cs.state.LastValidators.Copy()
		v := next.Validators[3].Copy()
		v.VotingPower = 10
		next.Update(v)
		cs.state.Validators = next
		cs.Validators = next
	}
	vs := types.NewVoteSet(vChain, 1, round, types.VoteTypePrecommit, cs.state.LastValidators)
	nFor := 0
	for i := 0; i < 4; i++ {
		switch vNondetLen("precommit", 0, 2) {
		case 1:
			added, err := vs.AddVote(vVote(i, 1, round, types.VoteTypePrecommit, bid, true, byte(10+i)))
			vAssume(added && err == nil)
			nFor++
		case 2:
			added, err := vs.AddVote(vVote(i, 1, round, types.VoteTypePrecommit, types.BlockID{}, true, byte(20+i)))
			vAssume(added && err == nil)
		}
	}
	vAssume(nFor >= 3) // the previous block was committed: more than 2/3 of 4 equal validators
	seen := vs.MakeCommit()
	if vSymbolic() {
		vSetStub("BlockStore).LoadSeenCommit", seen)
	} else {
		store := bc.NewBlockStore(dbm.NewMemDB(), dbm.NewMemDB())
		b := vBlock(1, 0x7)
		b.Header.Time = time.Unix(1500000000, 0)
		store.SaveBlock(b, b.MakePartSet(4096), seen)
		cs.blockStore = store
	}
	cs.LastCommit = nil
	cs.reconstructLastCommit(cs.state) // a panic here is a finding
	vReach("reconstructed")
	lc := cs.LastCommit
	vAssert(lc != nil, "W4-last-commit-rebuilt")
	if lc == nil {
		return
	}
	id, ok := lc.TwoThirdsMajority()
	vAssert(ok && id.Equals(bid), "W4-rebuilt-commit-has-the-same-majority")
	vAssert(lc.Height() == 1 && lc.Round() == round && lc.Type() == types.VoteTypePrecommit, "W4-rebuilt-commit-is-for-the-same-height-and-round")
	for i := 0; i < 4; i++ {
		a, b := vs.GetByIndex(i), lc.GetByIndex(i)
		vAssert((a == nil) == (b == nil), "W4-every-stored-precommit-is-back")
		if a != nil && b != nil {
			vAssert(a.BlockID.Equals(b.BlockID), "W4-precommit-unchanged")
		}
	}
}

// vStartTicker records when it is started relative to what OnStart does around it
type vStartTicker struct {
	started               int
	replayCallsAtStart    int
	scheduledBeforeStart  int
	scheduled             []timeoutInfo
	ch                    chan timeoutInfo
}

func (t *vStartTicker) Start() (bool, error) {
	t.started++
	t.replayCallsAtStart = vStubCalls("ConsensusState).catchupReplay")
	return true, nil
}
func (t *vStartTicker) Stop() bool               { return true }
func (t *vStartTicker) Chan() <-chan timeoutInfo { return t.ch }
func (t *vStartTicker) ScheduleTimeout(ti timeoutInfo) {
	if t.started == 0 {
		t.scheduledBeforeStart++ // the real ticker's channel has room for 10: replay of a longer height blocks for ever
	}
	t.scheduled = append(t.scheduled, ti)
}

// W5: the start-up sequence of a restarted node. The timeout ticker runs BEFORE the write-ahead
// log is replayed (replay schedules timeouts; nobody else reads the ticker's channel), the height
// marker is written when the log lacks it, and round 0 is scheduled afterwards. Under the engine
// catchupReplay is a seam (its call is counted); natively the log really holds a timeout record
// whose replay schedules the next timeout.
func VerifHarness_C07_start_sequence() {
	w := vC07New(false)
	defer w.cleanup()
	cs := w.cs
	cs.BaseService = *vNewBase()
	cs.BaseService.Start()
	tk := &vStartTicker{ch: make(chan timeoutInfo, 4)}
	cs.timeoutTicker = tk
	cs.Step = RoundStepNewHeight // (at NewHeight the vote set still tracks round 0 only)
	markerInLog := vNondetBool("height-marker-already-in-the-log")
	if vSymbolic() {
		var e error
		if !markerInLog {
			e = io.EOF
		}
		vSetStub("go-autofile.Group).Search", (*auto.GroupReader)(nil), markerInLog, e)
		vSetStub("ConsensusState).catchupReplay", nil)
	} else if markerInLog {
		cs.wal.Save(cs.RoundStateEvent()) // "#HEIGHT: 5" + the NewHeight step
		cs.wal.Save(timeoutInfo{Duration: 1, Height: cs.Height, Round: 0, Step: RoundStepNewHeight})
	}
	before := len(w.walLines())
	err := cs.OnStart() // real
	if !vSymbolic() {
		time.Sleep(50 * time.Millisecond)
		close(cs.Quit)
		<-cs.done
	}
	vReach("started")
	vAssert(err == nil, "W5-start-succeeds")
	vAssert(tk.started == 1, "W5-ticker-started-once")
	vAssert(tk.replayCallsAtStart == 0 && tk.scheduledBeforeStart == 0, "W5-ticker-runs-before-the-log-is-replayed")
	round0 := false
	for _, ti := range tk.scheduled {
		if ti.Height == 5 && ti.Round == 0 && ti.Step == RoundStepNewHeight {
			round0 = true
		}
	}
	vAssert(round0, "W5-round-0-of-the-height-is-scheduled")
	if !markerInLog {
		lines := w.walLines()[before:]
		vAssert(len(lines) >= 2 && lines[0] == "#HEIGHT: 5", "W5-missing-height-marker-is-written-at-start")
	} else {
		vReach("log-replayed")
	}
}

// W6: replay re-handles the logged inputs. The log of the current height holds its marker, the
// NewHeight timeout and the propose timeout; the crash came right after the propose timeout was
// logged. The real catchupReplay finds the marker, re-handles both timeouts (the node moves to
// Prevote and signs its prevote), logs the steps it takes, leaves replay mode, and the prevote it
// produced is STILL QUEUED for the consensus routine — it is the only copy (it had not been logged).
// Under the engine the file reader and the JSON decoder are seams (scripted lines, bound objects).
func VerifHarness_C07_catchup_replay() {
	w := vC07New(false)
	defer w.cleanup()
	cs := w.cs
	cs.BaseService = *vNewBase()
	cs.BaseService.Start()
	tk := &vStartTicker{ch: make(chan timeoutInfo, 4), started: 1}
	cs.timeoutTicker = tk
	cs.Step = RoundStepNewHeight
	t1 := timeoutInfo{Duration: 1, Height: cs.Height, Round: 0, Step: RoundStepNewHeight}
	t2 := timeoutInfo{Duration: 1, Height: cs.Height, Round: 0, Step: RoundStepPropose}
	if vSymbolic() {
		l1, l2 := "record-1", "record-2"
		vJSONBind([]byte(l1), &TimedWALMessage{Msg: t1})
		vJSONBind([]byte(l2), &TimedWALMessage{Msg: t2})
		vSetStub("go-autofile.Group).Search", (*auto.GroupReader)(nil), false, nil, &auto.GroupReader{}, true, nil)
		vSetStub("go-autofile.GroupReader).ReadLine", "#HEIGHT: 5", nil, l1, nil, l2, nil, "", io.EOF)
	} else {
		cs.wal.Save(cs.RoundStateEvent()) // marker + NewHeight step
		cs.wal.Save(t1)
		cs.wal.Save(t2)
	}
	before := len(w.walLines())
	err := cs.catchupReplay(cs.Height) // real
	vReach("replayed")
	vAssert(err == nil, "W6-replay-succeeds")
	vAssert(!cs.replayMode, "W6-replay-mode-left")
	vAssert(cs.Height == 5 && cs.Round == 0 && cs.Step == RoundStepPrevote, "W6-node-is-where-the-last-logged-input-left-it")
	vAssert(len(w.signer.votes) == 1 && w.signer.votes[0].Type == types.VoteTypePrevote, "W6-the-prevote-of-the-replayed-timeout-is-signed")
	vAssert(len(cs.internalMsgQueue) == 1, "W6-own-vote-produced-by-replay-is-still-queued-for-handling")
	vAssert(len(w.walLines())-before >= 2, "W6-steps-taken-during-replay-are-logged")
}

// W7: replay judges every record against the state AS IT IS WHEN THE RECORD IS RE-HANDLED (like
// the live routine does), not against the state at the start of replay. The log holds the precommit
// that completed +2/3 for block A (the node moved to Commit and waits for A's parts) and then the
// precommit-wait timeout of that round, which the live node ignored as stale: replay ignores it too.
func VerifHarness_C07_replay_ignores_what_was_stale() {
	w := vC07New(false)
	defer w.cleanup()
	cs := w.cs
	cs.BaseService = *vNewBase()
	cs.BaseService.Start()
	tk := &vStartTicker{ch: make(chan timeoutInfo, 4), started: 1}
	cs.timeoutTicker = tk
	w.setRound(0)
	cs.Step = RoundStepPrecommit
	w.seed(2, 0, types.VoteTypePrecommit, 1)
	w.seed(3, 0, types.VoteTypePrecommit, 1)
	w.sigID++
	last := msgInfo{&VoteMessage{vVote(0, cs.Height, 0, types.VoteTypePrecommit, w.idA, true, w.sigID)}, "peer"}
	stale := timeoutInfo{Duration: 1, Height: cs.Height, Round: 0, Step: RoundStepPrecommitWait}
	if vSymbolic() {
		l1, l2 := "record-1", "record-2"
		vJSONBind([]byte(l1), &TimedWALMessage{Msg: last})
		vJSONBind([]byte(l2), &TimedWALMessage{Msg: stale})
		vSetStub("go-autofile.Group).Search", (*auto.GroupReader)(nil), false, nil, &auto.GroupReader{}, true, nil)
		vSetStub("go-autofile.GroupReader).ReadLine", "#HEIGHT: 5", nil, l1, nil, l2, nil, "", io.EOF)
	} else {
		cs.wal.Save(types.EventDataRoundState{Height: cs.Height, Round: 0, Step: RoundStepNewHeight.String()}) // marker
		cs.wal.Save(last)
		cs.wal.Save(stale)
	}
	err := cs.catchupReplay(cs.Height) // real
	vReach("replayed")
	vAssert(err == nil, "W7-replay-succeeds")
	vAssert(cs.Height == 5 && cs.Round == 0 && cs.Step == RoundStepCommit && cs.CommitRound == 0,
		"W7-node-is-back-in-the-commit-step-it-had-reached")
	vAssert(cs.ProposalBlockParts != nil && cs.ProposalBlockParts.HasHeader(w.idA.PartsHeader), "W7-node-still-waits-for-the-decided-block")
}

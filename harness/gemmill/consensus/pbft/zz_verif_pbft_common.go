package pbft

// Shared harness helpers for the pbft properties (C01, C02, C04, C07, C08, C12):
// a ConsensusState built directly (no node start-up) around seam fakes.

import (
	"bytes"

	"github.com/dappledger/AnnChain/gemmill/go-crypto"
	gcmn "github.com/dappledger/AnnChain/gemmill/modules/go-common"
	clist "github.com/dappledger/AnnChain/gemmill/modules/go-clist"
	"github.com/dappledger/AnnChain/gemmill/modules/go-events"
	sm "github.com/dappledger/AnnChain/gemmill/state"
	"github.com/dappledger/AnnChain/gemmill/types"
)

// ---- fake crypto (as in the types harnesses) ----

// Validators carry real (wire-registered) ed25519 key types. Natively the keys are freshly
// generated and votes / proposals are really signed; under the engine ed25519.Verify is stubbed
// to "first signature byte == 1", so a signature's validity is simply what the harness chose.
var (
	vKeys []crypto.PrivKeyEd25519 // aligned with the validator index of vVals (native only)
	vVals *types.ValidatorSet
)

func vSigBytes(valid bool, id byte) crypto.Signature {
	var s crypto.SignatureEd25519
	if valid {
		s[0] = 1
	}
	s[1] = id
	return s
}

// vSigValid: did the harness make this signature valid? (engine: first byte; natively: non-zero)
func vSigValid(sig crypto.Signature) bool {
	s, ok := sig.(crypto.SignatureEd25519)
	if !ok {
		return false
	}
	if vSymbolic() {
		return s[0] == 1
	}
	for _, b := range s[3:] {
		if b != 0 {
			return true
		}
	}
	return false
}

// vSign produces validator i's signature over msg (valid) or a dud (invalid).
func vSign(i int, msg []byte, valid bool, id byte) crypto.Signature {
	if vSymbolic() || !valid || i < 0 || i >= len(vKeys) {
		s := vSigBytes(valid && vSymbolic(), id).(crypto.SignatureEd25519)
		if vSymbolic() && i >= 0 && i < len(vVals.Validators) {
			s[2] = vVals.Validators[i].PubKey.(crypto.PubKeyEd25519)[0] // names the signing key
		}
		return s
	}
	return vKeys[i].Sign(msg)
}

// ---- fake signer: records every vote / proposal it is asked to sign ----

type vSigner struct {
	addr      []byte
	index     int
	refuse    bool
	votes     []*types.Vote
	proposals []*types.Proposal
}

func (s *vSigner) GetAddress() []byte { return s.addr }
func (s *vSigner) SignVote(chainID string, v *types.Vote) error {
	if s.refuse {
		return errVSignerRefused
	}
	cp := *v
	s.votes = append(s.votes, &cp)
	v.Signature = vSign(v.ValidatorIndex, types.SignBytes(chainID, v), true, byte(100+len(s.votes)))
	return nil
}
func (s *vSigner) SignProposal(chainID string, p *types.Proposal) error {
	if s.refuse {
		return errVSignerRefused
	}
	cp := *p
	s.proposals = append(s.proposals, &cp)
	p.Signature = vSign(s.index, types.SignBytes(chainID, p), true, byte(200+len(s.proposals)))
	return nil
}

type vErr string

func (e vErr) Error() string { return string(e) }

var errVSignerRefused = vErr("signer refused")

// ---- fake event switch: records event names, answers hook events that carry a result channel ----

type vEvsw struct {
	types.EventSwitch // nil: every other method is unused by the code under test
	fired             []string
	unanswered        int
	onFire            func(event string)
}

func (e *vEvsw) FireEvent(event string, data events.EventData) {
	e.fired = append(e.fired, event)
	if e.onFire != nil {
		e.onFire(event)
	}
	switch d := data.(type) {
	case types.EventDataHookNewRound:
		d.ResCh <- types.NewRoundResult{}
	case types.EventDataHookExecute:
		d.ResCh <- types.ExecuteResult{}
	case types.EventDataHookCommit:
		d.ResCh <- types.CommitResult{AppHash: []byte{0xAA}, ReceiptsHash: []byte{0xBB}}
	}
}

// ---- fake timeout ticker ----

type vTicker struct {
	scheduled []timeoutInfo
	ch        chan timeoutInfo
}

func (t *vTicker) Start() (bool, error)           { return true, nil }
func (t *vTicker) Stop() bool                     { return true }
func (t *vTicker) Chan() <-chan timeoutInfo       { return t.ch }
func (t *vTicker) ScheduleTimeout(ti timeoutInfo) { t.scheduled = append(t.scheduled, ti) }

// ---- fake block verifier (sm.BlockVerifier seam) ----

type vVerifier struct {
	verdict map[*types.Block]bool // true = valid
	asked   []*types.Block
	def     bool
}

func (v *vVerifier) ValidateBlock(b *types.Block) error {
	v.asked = append(v.asked, b)
	ok, has := v.verdict[b]
	if !has {
		ok = v.def
	}
	if ok {
		return nil
	}
	return vErr("fake verifier: invalid block")
}

// ---- fake mempool ----

type vPool struct{}

func (vPool) Lock()                                 {}
func (vPool) Unlock()                               {}
func (vPool) Update(height int64, txs []types.Tx)   {}
func (vPool) Reap(maxTxs int) []types.Tx            { return nil }
func (vPool) Size() int                             { return 0 }
func (vPool) Flush()                                {}
func (vPool) ReceiveTx(tx types.Tx) error           { return nil }
func (vPool) TxsFrontWait() *clist.CElement         { return nil }
func (vPool) RegisterFilter(f types.IFilter)        {}
func (vPool) GetPendingMaxNonce(b []byte) (uint64, error) { return 0, nil }

// ---- validator set with fake keys ----

func vValSet(n int, power int64) *types.ValidatorSet {
	vals := make([]*types.Validator, n)
	keys := make([]crypto.PrivKeyEd25519, n)
	for i := range vals {
		var pub crypto.PubKey
		if vSymbolic() {
			var pk crypto.PubKeyEd25519
			pk[0] = byte(i + 1)
			pub = pk
		} else {
			keys[i] = crypto.GenPrivKeyEd25519()
			pub = keys[i].PubKey()
		}
		vals[i] = &types.Validator{Address: pub.Address(), PubKey: pub, VotingPower: power}
	}
	// sort by address, keeping the keys aligned with the validator index
	for i := 0; i < n; i++ {
		for j := i + 1; j < n; j++ {
			if bytes.Compare(vals[j].Address, vals[i].Address) < 0 {
				vals[i], vals[j] = vals[j], vals[i]
				keys[i], keys[j] = keys[j], keys[i]
			}
		}
	}
	for i := range vals {
		vals[i].Accum = int64(-i) // index 0 proposes
	}
	vKeys = keys
	vVals = &types.ValidatorSet{Validators: vals}
	return vVals
}

const vChain = "verif-chain"

// vBlock: a block whose identity is its height/apphash tag; Hash() is the real header hash
// (reflective go-wire inside, an injective UF under the engine).
func vBlock(height int64, tag byte) *types.Block {
	return &types.Block{
		Header:     &types.Header{ChainID: vChain, Height: height, AppHash: []byte{tag}},
		Data:       &types.Data{},
		LastCommit: &types.Commit{},
	}
}

type vCS struct {
	cs     *ConsensusState
	signer *vSigner
	evsw   *vEvsw
	ticker *vTicker
	ver    *vVerifier
	vals   *types.ValidatorSet
}

// vNewCS builds a ConsensusState at (height, round 0, NewHeight) for n equal-power validators;
// the node itself is validator index `me` (or no validator when me < 0).
func vNewCS(n int, height int64, me int) *vCS {
	vals := vValSet(n, 1)
	st := &sm.State{ChainID: vChain, LastBlockHeight: height - 1, Validators: vals, LastValidators: vals.Copy(),
		LastBlockID: types.BlockID{Hash: []byte{0x77}, PartsHeader: types.PartSetHeader{Total: 1, Hash: []byte{0x77}}},
		AppHash:     []byte{0xAA}, ReceiptsHash: []byte{0xBB}}
	ver := &vVerifier{verdict: map[*types.Block]bool{}, def: true}
	st.SetBlockVerifier(ver)
	h := &vCS{signer: &vSigner{}, evsw: &vEvsw{}, ticker: &vTicker{ch: make(chan timeoutInfo, 4)}, ver: ver, vals: vals}
	cs := &ConsensusState{
		mempool:          vPool{},
		peerMsgQueue:     make(chan msgInfo, 8),
		internalMsgQueue: make(chan msgInfo, 64),
		timeoutTicker:    h.ticker,
		timeoutParams:    &TimeoutParams{Propose0: 3000, ProposeDelta: 500, Prevote0: 1000, PrevoteDelta: 500, Precommit0: 1000, PrecommitDelta: 500, Commit0: 1000},
		done:             make(chan struct{}),
		state:            st,
	}
	cs.decideProposal = cs.defaultDecideProposal
	cs.doPrevote = cs.defaultDoPrevote
	cs.setProposal = cs.defaultSetProposal
	cs.evsw = h.evsw
	if me >= 0 {
		h.signer.addr = vals.Validators[me].Address
		h.signer.index = me
		cs.privValidator = h.signer
	}
	cs.Height = height
	cs.Round = 0
	cs.Step = RoundStepNewHeight
	cs.Validators = vals
	cs.LastValidators = st.LastValidators
	cs.Votes = NewHeightVoteSet(vChain, height, vals)
	cs.CommitRound = -1
	if height > 1 {
		cs.LastCommit = types.NewVoteSet(vChain, height-1, 0, types.VoteTypePrecommit, st.LastValidators)
	}
	h.cs = cs
	return h
}

// vVote builds a vote of validator i, signed (valid) or carrying a dud signature.
func vVote(i int, height, round int64, typ byte, bid types.BlockID, valid bool, id byte) *types.Vote {
	v := &types.Vote{ValidatorIndex: i, Height: height, Round: round, Type: typ, BlockID: bid}
	if i >= 0 && i < len(vVals.Validators) {
		v.ValidatorAddress = vVals.Validators[i].Address
	} else {
		v.ValidatorAddress = []byte{0xEE}
	}
	v.Signature = vSign(i, types.SignBytes(vChain, v), valid, id)
	return v
}

// digest of the consensus-relevant RoundState (for "rejected input leaves the state untouched")
type vDigest struct {
	H, R, LockedRound, CommitRound int64
	Step                           RoundStepType
	Proposal                       *types.Proposal
	ProposalBlock, LockedBlock     *types.Block
	ProposalParts, LockedParts     *types.PartSet
	PartsCount                     int
	Votes                          *HeightVoteSet
	PrevoteSum0, PrecommitSum0     int
	Queue                          int
}

func vSnap(cs *ConsensusState) vDigest {
	d := vDigest{H: cs.Height, R: cs.Round, LockedRound: cs.LockedRound, CommitRound: cs.CommitRound, Step: cs.Step,
		Proposal: cs.Proposal, ProposalBlock: cs.ProposalBlock, LockedBlock: cs.LockedBlock,
		ProposalParts: cs.ProposalBlockParts, LockedParts: cs.LockedBlockParts, Votes: cs.Votes, Queue: len(cs.internalMsgQueue)}
	if cs.ProposalBlockParts != nil {
		d.PartsCount = cs.ProposalBlockParts.Count()
	}
	if pv := cs.Votes.Prevotes(0); pv != nil {
		d.PrevoteSum0 = vOnes(pv.BitArray())
	}
	if pc := cs.Votes.Precommits(0); pc != nil {
		d.PrecommitSum0 = vOnes(pc.BitArray())
	}
	return d
}

func vOnes(b *gcmn.BitArray) int {
	n := 0
	for i := 0; i < b.Size(); i++ {
		if b.GetIndex(i) {
			n++
		}
	}
	return n
}

type vNopService struct{ gcmn.BaseService }

func vNewBase() *gcmn.BaseService { return gcmn.NewBaseService("verif", &vNopService{}) }

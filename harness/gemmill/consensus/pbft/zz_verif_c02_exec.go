package pbft

// C02 (validator sets across a block) — the commit for height h is verified against the validator
// set that was in force AT h. One real State.ExecBlock of a block whose end-of-block hook changes
// the validator set (a power change, an addition or a removal, as the admin plugin does it):
// afterwards LastValidators is exactly the set before the block, Validators the changed one, and
// the two do not share validators.

import (
	"bytes"
	"time"

	"github.com/dappledger/AnnChain/gemmill/modules/go-events"
	sm "github.com/dappledger/AnnChain/gemmill/state"
	"github.com/dappledger/AnnChain/gemmill/types"
)

type vValChangeExec struct {
	kind int
	who  int
}

func (e vValChangeExec) BeginBlock(*types.Block, events.Fireable, *types.PartSetHeader) error { return nil }
func (e vValChangeExec) ExecBlock(*types.Block, events.Fireable, *types.ExecuteResult) error  { return nil }
func (e vValChangeExec) EndBlock(b *types.Block, f events.Fireable, ph *types.PartSetHeader, ch []*types.ValidatorAttr, next *types.ValidatorSet) error {
	switch e.kind {
	case 1: // power change (the way plugin/admin_op.go updateValidators does it)
		v := next.Validators[e.who].Copy()
		v.VotingPower = 10
		next.Update(v)
	case 2: // removal
		next.Remove(next.Validators[e.who].Address)
	case 3: // in-place power change through the pointer GetByAddress returns a copy of: must not leak either
		_, v := next.GetByAddress(next.Validators[e.who].Address)
		v.VotingPower = 10
		next.Update(v)
	}
	return nil
}

func VerifHarness_C02_exec_block_validator_sets() {
	h := vNewCS(4, 1, 1)
	st := h.cs.state
	var log []string
	sm.VerifSetDB(st, &vOrderDB{name: "state", log: &log})
	kind, who := vNondetLen("change", 0, 3), vNondetLen("who", 0, 3)
	st.SetBlockExecutable(vValChangeExec{kind, who})
	before := st.Validators.Copy()
	data := &types.Data{}
	lc := &types.Commit{}
	hd := &types.Header{ChainID: vChain, Height: 1, Time: time.Unix(1600000000, 0), LastBlockID: st.LastBlockID,
		AppHash: st.AppHash, ReceiptsHash: st.ReceiptsHash, ValidatorsHash: st.Validators.Hash(),
		ProposerAddress: st.Validators.Validators[0].Address, DataHash: data.Hash(), LastCommitHash: lc.Hash()}
	b := &types.Block{Header: hd, Data: data, LastCommit: lc}
	parts := b.MakePartSet(4096)
	err := st.ExecBlock(h.evsw, b, parts.Header(), 0) // real
	vAssert(err == nil, "block-executes")
	vReach("executed")
	// the set in force at height 1 is remembered unchanged ...
	last := st.LastValidators
	vAssert(last != nil && last.Size() == before.Size(), "X-last-validators-is-the-set-before-the-block")
	if last != nil && last.Size() == before.Size() {
		for i, v := range before.Validators {
			w := last.Validators[i]
			vAssert(bytes.Equal(v.Address, w.Address) && v.VotingPower == w.VotingPower, "X-last-validators-keep-their-powers")
		}
		vAssert(last.TotalVotingPower() == before.TotalVotingPower(), "X-last-validators-total-unchanged")
	}
	// ... and the next set carries the change
	next := st.Validators
	switch kind {
	case 0:
		vAssert(next.Size() == 4 && next.TotalVotingPower() == 4, "X-unchanged-set-stays")
	case 1, 3:
		_, v := next.GetByAddress(before.Validators[who].Address)
		vAssert(v != nil && v.VotingPower == 10 && next.TotalVotingPower() == 13, "X-next-set-has-the-new-power")
	case 2:
		vAssert(next.Size() == 3 && !next.HasAddress(before.Validators[who].Address), "X-next-set-lacks-the-removed-validator")
	}
	for _, v := range next.Validators {
		for _, w := range last.Validators {
			vAssert(v != w, "X-sets-share-no-validator-object")
		}
	}
	vAssert(st.LastBlockHeight == 1, "X-state-at-the-block")
}


// A block that does not fit the state (wrong height, wrong previous block id, wrong app hash) is
// refused by State.ExecBlock for every caller — consensus (round >= 0) and fast sync / replay
// (round -1) alike — and leaves the state as it was.
func VerifHarness_C02_exec_block_refuses_misfit() {
	h := vNewCS(4, 1, 1)
	st := h.cs.state
	var log []string
	sm.VerifSetDB(st, &vOrderDB{name: "state", log: &log})
	st.SetBlockExecutable(vValChangeExec{})
	st.SetBlockVerifier(h.cs) // as the node wires it: the state validates through the consensus engine's ValidateBlock
	data := &types.Data{}
	lc := &types.Commit{}
	hd := &types.Header{ChainID: vChain, Height: 1, Time: time.Unix(1600000000, 0), LastBlockID: st.LastBlockID,
		AppHash: st.AppHash, ReceiptsHash: st.ReceiptsHash, ValidatorsHash: st.Validators.Hash(),
		ProposerAddress: st.Validators.Validators[0].Address, DataHash: data.Hash(), LastCommitHash: lc.Hash()}
	switch vNondetLen("misfit", 0, 2) {
	case 0:
		hd.Height = 2 // out of order
	case 1:
		hd.LastBlockID = types.BlockID{Hash: []byte{0x66}, PartsHeader: types.PartSetHeader{Total: 1, Hash: []byte{0x66}}}
	default:
		hd.AppHash = []byte{0xEE}
	}
	b := &types.Block{Header: hd, Data: data, LastCommit: lc}
	round := int64(vNondetLen("round", -1, 0))
	height0, id0 := st.LastBlockHeight, st.LastBlockID
	err := st.ExecBlock(h.evsw, b, b.MakePartSet(4096).Header(), round) // real
	vReach("misfit-offered")
	vAssert(err != nil, "X-block-that-does-not-fit-the-state-is-refused-whatever-the-round")
	vAssert(st.LastBlockHeight == height0 && st.LastBlockID.Equals(id0) && len(log) == 0, "X-refused-block-leaves-the-state")
}

package pbft

// C06 (commit path) — the ORDER of the durable effects of committing a block. One real
// ConsensusState.finalizeCommit (BlockStore.SaveBlock -> State.ApplyBlock -> ExecBlock +
// SaveIntermediate -> application commit hook -> State.Save -> updateToState) over recording
// stores: recovery (C06_recover_decision) relies on exactly this order — the block is in the store
// before anything is executed, the intermediate state is durable before the application commits,
// and the final state is saved only after the application has committed.

import (
	"strings"
	"time"

	bc "github.com/dappledger/AnnChain/gemmill/blockchain"
	dbm "github.com/dappledger/AnnChain/gemmill/modules/go-db"
	"github.com/dappledger/AnnChain/gemmill/modules/go-events"
	sm "github.com/dappledger/AnnChain/gemmill/state"
	"github.com/dappledger/AnnChain/gemmill/types"
	"github.com/spf13/viper"
)

type vOrderDB struct {
	name       string
	log        *[]string
	keys, vals [][]byte
	limit      int // > 0: only this many further writes survive (a crash), then the store loses everything
	dead       bool
}

func (d *vOrderDB) Get(k []byte) []byte {
	for i := range d.keys {
		if string(d.keys[i]) == string(k) {
			return d.vals[i]
		}
	}
	return nil
}
func (d *vOrderDB) Set(k, v []byte) {
	if k == nil || d.dead {
		return
	}
	if d.limit > 0 {
		d.limit--
		if d.limit == 0 {
			d.dead = true // this was the last write that made it to disk
		}
	}
	*d.log = append(*d.log, d.name+":"+string(k))
	for i := range d.keys {
		if string(d.keys[i]) == string(k) {
			d.vals[i] = v
			return
		}
	}
	d.keys, d.vals = append(d.keys, append([]byte{}, k...)), append(d.vals, v)
}
func (d *vOrderDB) SetSync(k, v []byte)    { d.Set(k, v) }
func (d *vOrderDB) Delete(k []byte)        {}
func (d *vOrderDB) DeleteSync(k []byte)    {}
func (d *vOrderDB) Close()                 {}
func (d *vOrderDB) NewBatch() dbm.Batch    { return &vOrderBatch{db: d} }
func (d *vOrderDB) Print()                 {}
func (d *vOrderDB) Iterator() dbm.Iterator { return nil }

type vOrderBatch struct {
	db   *vOrderDB
	k, v [][]byte
}

func (b *vOrderBatch) Set(k, v []byte) { b.k, b.v = append(b.k, append([]byte{}, k...)), append(b.v, v) }
func (b *vOrderBatch) Delete(k []byte) {}
func (b *vOrderBatch) Write() {
	for i := range b.k {
		b.db.Set(b.k[i], b.v[i])
	}
	b.k, b.v = nil, nil
}

type vFinExec struct{ log *[]string }

func (e vFinExec) BeginBlock(*types.Block, events.Fireable, *types.PartSetHeader) error { return nil }
func (e vFinExec) ExecBlock(*types.Block, events.Fireable, *types.ExecuteResult) error {
	*e.log = append(*e.log, "exec")
	return nil
}
func (e vFinExec) EndBlock(*types.Block, events.Fireable, *types.PartSetHeader, []*types.ValidatorAttr, *types.ValidatorSet) error {
	return nil
}

// under the engine decoding a stored block meta (reflection) is a seam: a meta is there iff its key is
var vFinStoreDB *vOrderDB

func vFinLoadBlockMeta(bs *bc.BlockStore, height int64) *types.BlockMeta {
	if vFinStoreDB == nil || vFinStoreDB.Get([]byte(gcmnFmtH(height))) == nil {
		return nil
	}
	return &types.BlockMeta{}
}

func gcmnFmtH(h int64) string {
	if h == 1 {
		return "H:1"
	}
	return "H:?"
}

func vFirst(log []string, what string) int {
	for i, l := range log {
		if strings.HasPrefix(l, what) {
			return i
		}
	}
	return -1
}

func vLast(log []string, what string) int {
	at := -1
	for i, l := range log {
		if strings.HasPrefix(l, what) {
			at = i
		}
	}
	return at
}

func vCount(log []string, what string) int {
	n := 0
	for _, l := range log {
		if strings.HasPrefix(l, what) {
			n++
		}
	}
	return n
}

func VerifHarness_C06_finalize_commit_order() {
	h := vNewCS(4, 1, 1) // height 1: the block store starts empty (SaveBlock insists on contiguous heights)
	cs := h.cs
	cs.config = viper.New()
	if vSymbolic() {
		vSetStub("Viper).GetString", vChain)
	} else {
		cs.config.Set("chain_id", vChain)
	}
	var log []string
	sdb := &vOrderDB{name: "store", log: &log}
	vFinStoreDB = sdb
	cs.blockStore = bc.NewBlockStore(sdb, &vOrderDB{name: "arch", log: &log})
	st := cs.state
	sm.VerifSetDB(st, &vOrderDB{name: "state", log: &log})
	st.SetBlockExecutable(vFinExec{&log})
	h.evsw.onFire = func(ev string) { log = append(log, "event:"+ev) }

	// the block the round decided: genuine for this state, complete, with +2/3 precommits
	data := &types.Data{}
	if vNondetBool("with-tx") {
		data.Txs = types.Txs{types.Tx{0x01}}
	}
	lc := &types.Commit{}
	hd := &types.Header{ChainID: vChain, Height: 1, Time: time.Unix(1600000000, 0), NumTxs: int64(len(data.Txs)), LastBlockID: st.LastBlockID,
		AppHash: st.AppHash, ReceiptsHash: st.ReceiptsHash, ValidatorsHash: st.Validators.Hash(),
		ProposerAddress: st.Validators.Validators[0].Address, DataHash: data.Hash(), LastCommitHash: lc.Hash()}
	b := &types.Block{Header: hd, Data: data, LastCommit: lc}
	parts := b.MakePartSet(4096)
	bid := types.BlockID{Hash: b.Hash(), PartsHeader: parts.Header()}
	cs.ProposalBlock, cs.ProposalBlockParts = b, parts
	cs.Votes.SetRound(1)
	for _, v := range []int{0, 2, 3} {
		added, err := cs.Votes.AddVote(vVote(v, 1, 0, types.VoteTypePrecommit, bid, true, byte(30+v)), "peer")
		vAssume(added && err == nil)
	}
	cs.Step, cs.CommitRound = RoundStepCommit, 0

	// an earlier incarnation of the node may have died while saving this very block: only the first
	// k durable writes of SaveBlock are on disk. The restarted node finalizes the block again and must
	// end up with the complete block in the store.
	if k := vNondetLen("writes-of-an-interrupted-save-on-disk", 0, 3); k > 0 {
		sdb.limit = k
		cs.blockStore.SaveBlock(b, parts, cs.Votes.Precommits(0).MakeCommit())
		sdb.limit, sdb.dead = 0, false
		cs.blockStore = bc.NewBlockStore(sdb, &vOrderDB{name: "arch", log: &log}) // what a restart opens
		vAssume(cs.blockStore.Height() == 0)
		log = nil
		vReach("interrupted-save")
	}

	cs.finalizeCommit(1) // real; a panic is a finding

	vReach("finalized")
	vAssert(cs.Height == 2 && cs.Step == RoundStepNewHeight, "F-node-moved-to-next-height")
	vAssert(cs.blockStore.Height() == 1, "F-block-stored")
	vAssert(sdb.Get([]byte("H:1")) != nil && sdb.Get([]byte("P:1:0")) != nil && sdb.Get([]byte("SC:1")) != nil && sdb.Get([]byte("C:0")) != nil,
		"F-stored-block-is-complete")
	desc, exec := vLast(log, "store:blockStore"), vFirst(log, "event:"+types.EventStringHookExecute())
	inter, commit, final := vFirst(log, "state:stateIntermediateKey"), vFirst(log, "event:"+types.EventStringHookCommit()), vFirst(log, "state:stateKey")
	vAssert(desc >= 0 && exec >= 0 && inter >= 0 && commit >= 0 && final >= 0, "F-every-durable-effect-happened")
	vAssert(vLast(log, "store:") < exec, "F-block-fully-stored-before-execution-starts")
	vAssert(exec < inter && vFirst(log, "exec") < inter, "F-intermediate-state-saved-after-execution")
	vAssert(inter < commit, "F-intermediate-state-durable-before-the-application-commits")
	vAssert(commit < final, "F-final-state-saved-only-after-the-application-committed")
	vAssert(vCount(log, "event:"+types.EventStringHookCommit()) == 1 && vCount(log, "event:"+types.EventStringHookExecute()) == 1, "F-block-executed-and-committed-once")
	vAssert(vCount(log, "state:stateKey") == 1 && vLast(log, "state:") == final, "F-final-state-is-the-last-state-write")
	vAssert(string(cs.state.AppHash) == string([]byte{0xAA}) && cs.state.LastBlockHeight == 1, "F-new-state-carries-the-applications-hash")
}

package pbft

// C08 — no peer input can crash or wedge an honest node. The reactor's Receive (recovered
// context: a panic only disconnects the peer) followed by the consensus goroutine's handleMsg
// (fatal context: a panic kills the node) on an ARBITRARY decoded message.

import (
	"time"

	"github.com/dappledger/AnnChain/gemmill/go-wire"
	gcmn "github.com/dappledger/AnnChain/gemmill/modules/go-common"
	"github.com/dappledger/AnnChain/gemmill/p2p"
	"github.com/dappledger/AnnChain/gemmill/types"
)

type vNopReactor struct{ p2p.BaseReactor }

func vC08Reactor(cs *ConsensusState) *ConsensusReactor {
	conR := &ConsensusReactor{conS: cs}
	conR.BaseReactor = *p2p.NewBaseReactor("ConsensusReactor", &vNopReactor{})
	conR.BaseReactor.Start()
	return conR
}

func vC08Peer() (*p2p.Peer, *PeerState) {
	peer := &p2p.Peer{Key: "peer-1", Data: gcmn.NewCMap()}
	ps := NewPeerState(peer)
	peer.Data.Set(types.PeerStateKey, ps)
	return peer, ps
}

// vC08Wire: the bytes the peer sends. Natively the real go-wire encoding of msg; under the engine
// DecodeMessage is stubbed to return msg itself (reflection cannot be executed symbolically).
func vC08Wire(msg ConsensusMessage, typ byte) []byte {
	if vSymbolic() {
		vSetStub("pbft.DecodeMessage", typ, msg, nil)
		return []byte{typ}
	}
	return wire.BinaryBytes(struct{ ConsensusMessage }{msg})
}

// the address field of a peer's vote: empty, garbage, or a real validator's address
func vC08Addr() []byte {
	switch k := vNondetLen("addrkind", 0, 3); k {
	case 0:
		return nil
	case 1:
		return []byte{vNondetByte("addr")}
	default:
		return vVals.Validators[k-2].Address
	}
}

func vC08BlockID(tag string) types.BlockID { return vC08BlockIDX(tag, 2) }

func vC08BlockIDX(tag string, kinds int) types.BlockID {
	switch vNondetLen(tag, 0, kinds) {
	case 3: // the id of the previous block (what last-commit precommits carry)
		return types.BlockID{Hash: []byte{0x77}, PartsHeader: types.PartSetHeader{Total: 1, Hash: []byte{0x77}}}
	case 1:
		return types.BlockID{Hash: []byte{0xA}, PartsHeader: types.PartSetHeader{Total: 1, Hash: []byte{0xA}}}
	case 2:
		return types.BlockID{Hash: []byte{0xB}, PartsHeader: types.PartSetHeader{Total: vNondetInt(tag + ".total"), Hash: []byte{0xB}}}
	}
	return types.BlockID{}
}

// deliver runs Receive (panics there are recovered by the p2p layer: allowed, but must not have
// touched the consensus state) and then lets the consensus goroutine handle whatever was queued.
func vC08Deliver(h *vCS, conR *ConsensusReactor, peer *p2p.Peer, ch byte, bz []byte) {
	cs := h.cs
	before := vSnap(cs)
	panicked := func() (p bool) {
		defer func() {
			if r := recover(); r != nil {
				p = true
			}
		}()
		conR.Receive(ch, peer, bz)
		return false
	}()
	if panicked {
		vReach("receive-panicked-recovered")
		vAssert(vSnap(cs) == before, "recovered-panic-left-consensus-state-untouched")
		vAssert(len(cs.peerMsgQueue) == 0, "recovered-panic-queued-nothing")
		return
	}
	// the consensus goroutine: one iteration of receiveRoutine per queued message (no recover there)
	for len(cs.peerMsgQueue) > 0 {
		mi := <-cs.peerMsgQueue
		vReach("handled-on-consensus-goroutine")
		cs.handleMsg(mi, cs.RoundState) // a panic here is a finding
	}
}

// vC08MoveOn: after any peer message the node must still be able to advance: the precommit-wait
// timeout of the current round moves it to the next round without panicking ("not wedged").
func vC08MoveOn(h *vCS) {
	cs := h.cs
	if cs.Step >= RoundStepCommit || cs.Height != 5 {
		return
	}
	r := cs.Round
	cs.handleTimeout(timeoutInfo{Height: cs.Height, Round: r, Step: RoundStepPrecommitWait}, cs.RoundState)
	vAssert(cs.Round == r+1, "node-advances-to-next-round-after-any-peer-message")
	vReach("moved-on")
}

func vC08State(h *vCS) { vC08StateX(h, true) }

func vC08StateX(h *vCS, withProposal bool) {
	cs := h.cs
	// receiver at an arbitrary step of round 0 or 1
	if withProposal {
		cs.Step = RoundStepType(vNondetLen("step", 1, 8))
	} else {
		steps := []RoundStepType{RoundStepNewHeight, RoundStepPropose, RoundStepPrevote, RoundStepPrecommitWait, RoundStepCommit}
		cs.Step = steps[vNondetLen("step", 0, len(steps)-1)]
	}
	if vNondetBool("round1") {
		cs.Round = 1
		cs.Votes.SetRound(2)
	} else {
		cs.Votes.SetRound(1)
	}
	if withProposal && vNondetBool("hasproposal") {
		cs.Proposal = types.NewProposal(cs.Height, cs.Round, types.PartSetHeader{Total: 2, Hash: []byte{0xA}}, -1, types.BlockID{})
		cs.ProposalBlockParts = types.NewPartSetFromHeader(cs.Proposal.BlockPartsHeader)
	}
}

// a vote with every field arbitrary (everything the decoder can produce)
func VerifHarness_C08_vote_message() {
	n := vParam("N", 3)
	h := vNewCS(n, 5, -1)
	conR := vC08Reactor(h.cs)
	peer, _ := vC08Peer()
	// the node may already hold a genuine vote of validator 0 (so that the incoming vote can be a
	// duplicate of, or conflict with, a stored one), in this height's vote set or in the last commit.
	// Vote-set bookkeeping does not depend on the step: with a prior vote the step is pinned.
	prior := vNondetLen("prior", 0, 2)
	bidKinds := 2
	switch prior {
	case 0:
		vC08StateX(h, false)
	case 1:
		h.cs.Step = RoundStepPrevote
		h.cs.Votes.SetRound(1)
		typ := byte(types.VoteTypePrevote)
		if vNondetBool("prior-precommit") {
			typ = types.VoteTypePrecommit
		}
		bid := types.BlockID{Hash: []byte{0xA}, PartsHeader: types.PartSetHeader{Total: 1, Hash: []byte{0xA}}}
		added, err := h.cs.Votes.AddVote(vVote(0, h.cs.Height, 0, typ, bid, true, 7), "peer-0")
		vAssume(added && err == nil)
	case 2:
		h.cs.Step = RoundStepNewHeight // the only step at which late precommits of the previous height are taken
		bidKinds = 3
		h.cs.Votes.SetRound(1)
		added, err := h.cs.LastCommit.AddVote(vVote(0, h.cs.Height-1, 0, types.VoteTypePrecommit, h.cs.state.LastBlockID, true, 7))
		vAssume(added && err == nil)
	}
	var vote *types.Vote
	if !vNondetBool("nilvote") {
		vote = &types.Vote{
			ValidatorIndex:   vNondetInt("index"),
			ValidatorAddress: vC08Addr(),
			Height:           h.cs.Height + int64(vNondetLen("dheight", -1, 1)),
			Round:            int64(vNondetRange("round", -1, 3)),
			Type:             vNondetByte("type"),
			BlockID:          vC08BlockIDX("bid", bidKinds),
		}
		if !vNondetBool("nilsig") {
			vote.Signature = vSign(vote.ValidatorIndex, types.SignBytes(vChain, vote), vNondetBool("validsig"), 9)
		}
	}
	vC08Deliver(h, conR, peer, VoteChannel, vC08Wire(&VoteMessage{vote}, msgTypeVote))
	vC08MoveOn(h)
}

// a proposal with every field arbitrary
func VerifHarness_C08_proposal_message() {
	n := vParam("N", 3)
	h := vNewCS(n, 5, -1)
	vC08State(h)
	conR := vC08Reactor(h.cs)
	peer, _ := vC08Peer()
	var prop *types.Proposal
	if !vNondetBool("nilproposal") {
		prop = &types.Proposal{
			Height:           h.cs.Height + int64(vNondetLen("dheight", -1, 1)),
			Round:            int64(vNondetRange("round", -1, 2)),
			BlockPartsHeader: types.PartSetHeader{Total: vNondetRange("total", -2, 4), Hash: vNondetBytes("phash", vNondetLen("phashlen", 0, 1))},
			POLRound:         int64(vNondetRange("polround", -2, 2)),
			POLBlockID:       vC08BlockID("polbid"),
		}
		if !vNondetBool("nilsig") {
			prop.Signature = vSign(0, types.SignBytes(vChain, prop), vNondetBool("validsig"), 9) // validator 0 is the proposer
		}
	}
	before := vSnap(h.cs)
	vC08Deliver(h, conR, peer, DataChannel, vC08Wire(&ProposalMessage{prop}, msgTypeProposal))
	after := vSnap(h.cs)
	if after.Proposal != before.Proposal {
		vReach("proposal-accepted")
		vAssert(prop != nil && prop.Height == h.cs.Height && prop.Round == h.cs.Round, "accepted-proposal-is-for-current-round")
		vAssert(vSigValid(prop.Signature), "accepted-proposal-has-valid-proposer-signature")
		vAssert(prop.POLRound >= -1 && prop.POLRound < prop.Round, "accepted-proposal-has-sane-pol-round")
		vAssert(prop.BlockPartsHeader.Total >= 1, "accepted-proposal-has-positive-parts-total")
		vAssert(before.Step < RoundStepCommit, "no-proposal-is-adopted-once-the-node-is-committing")
	}
	vC08MoveOn(h)
}

// a block part with every field arbitrary
func VerifHarness_C08_blockpart_message() {
	n := vParam("N", 3)
	h := vNewCS(n, 5, -1)
	vC08State(h)
	conR := vC08Reactor(h.cs)
	peer, _ := vC08Peer()
	var part *types.Part
	if !vNondetBool("nilpart") {
		part = &types.Part{Index: vNondetInt("index"), Bytes: vNondetBytes("bytes", vNondetLen("byteslen", 0, 1))}
		na := vNondetLen("naunts", 0, 2)
		for i := 0; i < na; i++ {
			part.Proof.Aunts = append(part.Proof.Aunts, vNondetBytes("aunt", vNondetLen("auntlen", 0, 1)))
		}
	}
	msg := &BlockPartMessage{Height: h.cs.Height + int64(vNondetLen("dheight", -1, 1)), Round: int64(vNondetRange("round", -1, 2)), Part: part}
	before := vSnap(h.cs)
	vC08Deliver(h, conR, peer, DataChannel, vC08Wire(msg, msgTypeBlockPart))
	after := vSnap(h.cs)
	// with an unforgeable hash no arbitrary 0..1-byte part can be genuine for the 2-part header 0xA
	vAssert(after.PartsCount == before.PartsCount, "bogus-part-not-added")
	vC08MoveOn(h)
}

// peer-state messages: a panic is recovered (peer dropped), the consensus state must be untouched,
// and whatever they leave in the peer state must not crash the next gossip computation.
func VerifHarness_C08_peer_state_messages() {
	n := vParam("N", 3)
	h := vNewCS(n, 5, -1)
	h.cs.Step = RoundStepPrevote
	h.cs.Votes.SetRound(1)
	conR := vC08Reactor(h.cs)
	peer, ps := vC08Peer()
	ps.Height = h.cs.Height + int64(vNondetLen("ps.dheight", -1, 1))
	ps.Round = int64(vNondetLen("ps.round", -1, 1))
	ps.Step = RoundStepPrevote
	if vParam("KIND", 0) == 0 {
		ps.Step = RoundStepType(vNondetLen("ps.step", 1, 8))
	}
	if vNondetBool("ps.hasarrays") {
		ps.EnsureVoteBitArrays(ps.Height, n)
		ps.ProposalPOLRound = 0
	}
	mkBits := func(tag string) *gcmn.BitArray {
		if vNondetBool(tag + ".nil") {
			return nil
		}
		bitsChoices := []int{-1, 0, 1, 3, 63, 64, 65, 130}
		return &gcmn.BitArray{Bits: bitsChoices[vNondetLen(tag+".bits", 0, len(bitsChoices)-1)], Elems: make([]uint64, vNondetLen(tag+".elems", 0, 3))}
	}
	before := vSnap(h.cs)
	var bz []byte
	var ch byte = StateChannel
	switch vParam("KIND", 0) {
	case 0:
		bz = vC08Wire(&NewRoundStepMessage{Height: h.cs.Height + int64(vNondetLen("dheight", -1, 1)), Round: int64(vNondetRange("round", -1, 2)),
			Step: RoundStepType(vNondetByte("mstep")), SecondsSinceStartTime: []int{0, 7, -1, 1 << 40}[vNondetLen("secs", 0, 3)], LastCommitRound: int64(vNondetRange("lcr", -1, 2))}, msgTypeNewRoundStep)
	case 1:
		bz = vC08Wire(&CommitStepMessage{Height: h.cs.Height + int64(vNondetLen("dheight", -1, 1)),
			BlockPartsHeader: types.PartSetHeader{Total: vNondetInt("total"), Hash: []byte{1}}, BlockParts: mkBits("bp")}, msgTypeCommitStep)
	case 2:
		bz = vC08Wire(&HasVoteMessage{Height: h.cs.Height + int64(vNondetLen("dheight", -1, 1)), Round: int64(vNondetRange("round", -1, 2)),
			Type: vNondetByte("type"), Index: vNondetInt("index")}, msgTypeHasVote)
	case 3:
		bz = vC08Wire(&VoteSetMaj23Message{Height: h.cs.Height + int64(vNondetLen("dheight", -1, 1)), Round: int64(vNondetRange("round", -1, 3)),
			Type: vNondetByte("type"), BlockID: vC08BlockID("bid")}, msgTypeVoteSetMaj23)
	case 4:
		ch = DataChannel
		bz = vC08Wire(&ProposalPOLMessage{Height: h.cs.Height + int64(vNondetLen("dheight", -1, 1)), ProposalPOLRound: int64(vNondetRange("polr", -1, 2)),
			ProposalPOL: mkBits("pol")}, msgTypeProposalPOL)
	case 5:
		ch = VoteSetBitsChannel
		bz = vC08Wire(&VoteSetBitsMessage{Height: h.cs.Height + int64(vNondetLen("dheight", -1, 1)), Round: int64(vNondetRange("round", -1, 3)),
			Type: vNondetByte("type"), BlockID: vC08BlockID("bid"), Votes: mkBits("votes")}, msgTypeVoteSetBits)
	}
	vC08Deliver(h, conR, peer, ch, bz)
	vAssert(vSnap(h.cs) == before, "peer-state-message-leaves-consensus-state-untouched")
}

// One peer cannot make the node allocate vote sets without bound: K votes from the same peer, each
// naming another untracked round of the current height (valid or not: bad signature, validator
// index out of range), open at most two catch-up rounds — and the node still advances afterwards.
func VerifHarness_C08_catchup_round_quota() {
	n := vParam("N", 3)
	h := vNewCS(n, 5, -1)
	cs := h.cs
	cs.Step = RoundStepPrevote
	cs.Votes.SetRound(1)
	conR := vC08Reactor(cs)
	peer, _ := vC08Peer()
	base := len(cs.Votes.roundVoteSets)
	k := vParam("K", 4)
	for i := 0; i < k; i++ {
		round := int64(3 + i)
		idx := 0
		if vNondetBool("index-out-of-range") {
			idx = n
		}
		vote := vVote(idx, cs.Height, round, types.VoteTypePrevote, types.BlockID{}, vNondetBool("validsig"), byte(40+i))
		vC08Deliver(h, conR, peer, VoteChannel, vC08Wire(&VoteMessage{vote}, msgTypeVote))
	}
	vReach("votes-delivered")
	vAssert(len(cs.Votes.roundVoteSets) <= base+2, "one-peer-opens-at-most-two-catch-up-rounds")
	vAssert(len(cs.Votes.peerCatchupRounds[peer.Key]) <= 2, "catch-up-quota-recorded-per-peer")
	vC08MoveOn(h)
}

// A burst of peer messages fills the consensus queue. Receive may then wait for the consensus
// routine to make room — but not while holding the state mutex: the routine needs that mutex for
// every item it takes, so the two would wait for each other for ever. Under the engine a send on
// the full queue ends the path as "blocked" when no mutex is held and as a deadlock finding
// otherwise; natively a consumer goroutine that does what receiveRoutine does (take the mutex, then
// an item) runs beside Receive, and Receive must return.
func VerifHarness_C08_receive_on_full_queue() {
	n := vParam("N", 3)
	h := vNewCS(n, 5, -1)
	cs := h.cs
	cs.Step = RoundStepPrevote
	cs.Votes.SetRound(1)
	cs.peerMsgQueue = make(chan msgInfo, 1)
	cs.peerMsgQueue <- msgInfo{&VoteMessage{vVote(2, cs.Height, 0, types.VoteTypePrevote, types.BlockID{}, true, 1)}, "peer-0"}
	conR := vC08Reactor(cs)
	peer, _ := vC08Peer()
	kind := vNondetLen("message", 0, 2)
	var ch byte
	var bz []byte
	switch kind {
	case 0:
		ch, bz = VoteChannel, vC08Wire(&VoteMessage{vVote(0, cs.Height, 0, types.VoteTypePrevote, types.BlockID{}, true, 2)}, msgTypeVote)
	case 1:
		p := types.NewProposal(cs.Height, 0, types.PartSetHeader{Total: 1, Hash: []byte{0xA}}, -1, types.BlockID{})
		p.Signature = vSign(0, types.SignBytes(vChain, p), true, 9)
		ch, bz = DataChannel, vC08Wire(&ProposalMessage{p}, msgTypeProposal)
	default:
		ch, bz = DataChannel, vC08Wire(&BlockPartMessage{Height: cs.Height, Round: 0, Part: &types.Part{Index: 0, Bytes: []byte{1}}}, msgTypeBlockPart)
	}
	if !vSymbolic() {
		go func() {
			time.Sleep(100 * time.Millisecond)
			cs.mtx.Lock() // what receiveRoutine does for every item it handles
			cs.mtx.Unlock()
			<-cs.peerMsgQueue
		}()
	}
	vReach("queue-full-message-arrives")
	conR.Receive(ch, peer, bz) // must get through once the consumer has made room
	vReach("received-despite-the-full-queue")
	vAssert(len(cs.peerMsgQueue) == 1, "message-queued-after-the-consumer-made-room")
}

package p2p

// C20 N5 — admission. A peer gets into Switch.Peers() only if its authenticated key passes the
// refuse-list filter and the key filter, whichever side opened the connection. The real
// Switch.AddPeerWithConnection runs; under the engine the handshakes over the wire are seams
// (MakeSecretConnection / peerHandshake / exchangeData / newPeer return what a successful handshake
// with that key returns), natively two real switches talk over an in-memory pipe.

import (
	"errors"
	"net"
	"time"

	"github.com/dappledger/AnnChain/gemmill/go-crypto"
	gcmn "github.com/dappledger/AnnChain/gemmill/modules/go-common"
	"github.com/spf13/viper"
)

type vAddrT struct{}

func (vAddrT) Network() string { return "tcp" }
func (vAddrT) String() string  { return "10.0.0.9:1" }

type vConnT struct{ closed bool }

func (c *vConnT) Read(b []byte) (int, error)         { return 0, errors.New("verif: no data") }
func (c *vConnT) Write(b []byte) (int, error)        { return len(b), nil }
func (c *vConnT) Close() error                       { c.closed = true; return nil }
func (c *vConnT) LocalAddr() net.Addr                { return vAddrT{} }
func (c *vConnT) RemoteAddr() net.Addr               { return vAddrT{} }
func (c *vConnT) SetDeadline(t time.Time) error      { return nil }
func (c *vConnT) SetReadDeadline(t time.Time) error  { return nil }
func (c *vConnT) SetWriteDeadline(t time.Time) error { return nil }

func VerifHarness_C20_N5_admission() {
	outbound := vNondetBool("we-dialed")
	refused := vNondetBool("key-on-refuse-list")
	keyFiltered := vNondetBool("key-rejected-by-key-filter")
	otherIdentity := vNondetBool("announces-another-identity-than-it-authenticated-with")
	var admitted, inPeers bool
	var size int
	if vSymbolic() {
		var mine, theirs crypto.PubKeyEd25519
		mine[0], theirs[0] = 1, 2
		sw := &Switch{config: viper.New(), peers: NewPeerSet(), dialing: gcmn.NewCMap(), nodeInfo: &NodeInfo{PubKey: mine}}
		sw.BaseService = *gcmn.NewBaseService("P2P Switch", sw)
		vSetStub("Viper).GetBool", true)
		vSetStub("Viper).GetInt", 5)
		if refused {
			sw.SetRefuseListFilter(func(pk crypto.PubKey) error {
				if pk.Equals(theirs) {
					return errors.New("in refuselist")
				}
				return nil
			})
		}
		if keyFiltered {
			sw.SetPubKeyFilter(func(pk crypto.PubKey) error {
				if pk.Equals(theirs) {
					return errors.New("key filtered")
				}
				return nil
			})
		}
		conn := &vConnT{}
		info := &NodeInfo{PubKey: theirs, Moniker: "other"}
		if otherIdentity {
			var third crypto.PubKeyEd25519
			third[0] = 3
			info.PubKey = third
		}
		vSetStub("p2p.MakeSecretConnection", &SecretConnection{conn: conn, remPubKey: theirs}, nil)
		vSetStub("p2p.peerHandshake", info, nil)
		vSetStub("p2p.exchangeData", nil)
		p := &Peer{outbound: outbound, NodeInfo: info, Key: theirs.KeyString(), Data: gcmn.NewCMap()}
		vSetStub("p2p.newPeer", p)
		peer, err := sw.AddPeerWithConnection(conn, outbound) // real
		vAssert((err == nil) == (peer != nil), "N5-peer-returned-iff-no-error")
		admitted, inPeers, size = err == nil, sw.Peers().Has(theirs.KeyString()), sw.Peers().Size()
		if !admitted {
			vAssert(conn.closed, "N5-rejected-connection-is-closed")
		}
	} else {
		mk := func(i int) *Switch {
			cfg := viper.New()
			cfg.Set(configKeyHandshakeTimeoutSeconds, 5)
			return makeSwitch(cfg, i, "testing", "1.0.0", func(_ int, sw *Switch) *Switch { return sw })
		}
		me, other := mk(0), mk(1)
		theirs := other.NodeInfo().PubKey
		if otherIdentity {
			ni := *other.NodeInfo()
			ni.PubKey = crypto.GenPrivKeyEd25519().PubKey()
			other.SetNodeInfo(&ni)
		}
		if refused {
			me.SetRefuseListFilter(func(pk crypto.PubKey) error {
				if pk.Equals(theirs) {
					return errors.New("in refuselist")
				}
				return nil
			})
		}
		if keyFiltered {
			me.SetPubKeyFilter(func(pk crypto.PubKey) error {
				if pk.Equals(theirs) {
					return errors.New("key filtered")
				}
				return nil
			})
		}
		cMe, cOther := net.Pipe()
		done := make(chan error, 2)
		go func() { _, err := other.AddPeerWithConnection(cOther, !outbound); _ = err; done <- nil }()
		var myErr error
		go func() { _, err := me.AddPeerWithConnection(cMe, outbound); myErr = err; done <- nil }()
		for i := 0; i < 2; i++ {
			select {
			case <-done:
			case <-time.After(20 * time.Second):
				panic("verif: connection attempt hangs")
			}
		}
		admitted, inPeers, size = myErr == nil, me.Peers().Has(theirs.KeyString()), me.Peers().Size()
	}
	vReach("connection-attempt-finished")
	if refused || keyFiltered || otherIdentity {
		vAssert(!admitted && !inPeers && size == 0, "N5-refused-or-filtered-key-is-never-admitted-inbound-or-outbound")
	} else {
		vReach("admitted")
		vAssert(admitted && inPeers && size == 1, "N5-acceptable-key-is-admitted")
	}
}

package p2p

// C20 — transport: SecretConnection byte accounting and framing, nonce discipline, packetisation.
// secretbox is idealised under the engine (Seal = tag(nonce) ++ plaintext, Open succeeds iff the
// tag matches the receiver's nonce); natively the real NaCl box runs.

import (
	"bytes"
	"io"
)

// vPipe: an in-memory, in-order byte pipe standing for the socket.
type vPipe struct {
	buf     bytes.Buffer
	segment int // > 0: the transport hands over at most this many bytes per Read (TCP segment boundaries)
}

func (p *vPipe) Read(b []byte) (int, error) {
	if p.segment > 0 && len(b) > p.segment {
		b = b[:p.segment]
	}
	return p.buf.Read(b)
}
func (p *vPipe) Write(b []byte) (int, error) { return p.buf.Write(b) }
func (p *vPipe) Close() error                { return nil }

func vC20Pair() (*SecretConnection, *SecretConnection, *vPipe) {
	pipe := &vPipe{}
	key := new([32]byte)
	key[0] = 7
	n1, n2 := new([24]byte), new([24]byte)
	n1[23], n2[23] = 0, 0
	snd := &SecretConnection{conn: pipe, sendNonce: n1, recvNonce: new([24]byte), shrSecret: key}
	rcv := &SecretConnection{conn: pipe, sendNonce: new([24]byte), recvNonce: n2, shrSecret: key}
	return snd, rcv, pipe
}

func vC20Msg(tag string, l int) []byte {
	msg := make([]byte, l)
	// first, last and a middle byte are symbolic; the rest is a fixed pattern
	for i := range msg {
		msg[i] = byte(i*7 + 1)
	}
	if l > 0 {
		msg[0] = vNondetByte(tag)
		msg[l-1] = vNondetByte(tag)
		msg[l/2] = vNondetByte(tag)
	}
	return msg
}

// N1: what Write sends, Read delivers - for every caller buffer size, with the returned n equal
// to the bytes actually copied (the stream position advances by exactly n).
func VerifHarness_C20_N1_stream_read_write() {
	snd, rcv, pipe := vC20Pair()
	// the transport may hand a sealed frame over in pieces
	pipe.segment = []int{0, 1000, 17}[vNondetLen("transport-segment", 0, 2)]
	lens := []int{0, 1, 3, 1023, 1024, 1025, 2050}
	l := lens[vNondetLen("len", 0, vParam("LI", 3))]
	msg := vC20Msg("msg", l)
	n, err := snd.Write(msg)
	vAssert(err == nil && n == l, "N1-write-reports-all-bytes")
	out := make([]byte, 0, l)
	bsz := []int{1, 2, 3, 1024, 4000}[vNondetLen("bufsize", 0, 4)]
	buf := make([]byte, bsz)
	for it := 0; it < l+4 && len(out) < l; it++ {
		for i := range buf {
			buf[i] = 0xEE
		}
		m, rerr := rcv.Read(buf)
		vAssert(rerr == nil, "N1-read-no-error-while-data-pending")
		if rerr != nil {
			break
		}
		vAssert(m >= 0 && m <= bsz, "N1-read-n-within-buffer")
		// bytes beyond n are untouched: n is exactly what was copied
		for i := m; i < bsz && i < m+2; i++ {
			vAssert(buf[i] == 0xEE, "N1-read-n-equals-bytes-copied")
		}
		vAssert(m > 0, "N1-read-makes-progress")
		out = append(out, buf[:m]...)
	}
	vReach("all-read")
	vAssert(bytes.Equal(out, msg), "N1-stream-delivers-exactly-what-was-written")
	// nothing more: the next read finds the pipe empty
	if l > 0 {
		_, rerr := rcv.Read(buf)
		vAssert(rerr == io.EOF || rerr == io.ErrUnexpectedEOF, "N1-nothing-beyond-the-message")
	}
}

// N1b: frames are accepted only in order: a dropped or replayed frame fails to open.
func VerifHarness_C20_N1_frame_order() {
	snd, rcv, pipe := vC20Pair()
	a, b := vC20Msg("a", 2), vC20Msg("b", 2)
	snd.Write(a)
	first := append([]byte{}, pipe.buf.Bytes()...)
	snd.Write(b)
	buf := make([]byte, 4)
	switch vNondetLen("attack", 0, 2) {
	case 0: // drop the first frame
		pipe.buf.Next(len(first))
		_, err := rcv.Read(buf)
		vAssert(err != nil, "N1b-dropped-frame-detected")
	case 1: // replay the first frame after it was consumed
		m, err := rcv.Read(buf)
		vAssert(err == nil && bytes.Equal(buf[:m], a), "N1b-first-frame-ok")
		rest := append([]byte{}, pipe.buf.Bytes()...)
		pipe.buf.Reset()
		pipe.buf.Write(first)
		pipe.buf.Write(rest)
		_, err = rcv.Read(buf)
		vAssert(err != nil, "N1b-replayed-frame-detected")
	default: // honest delivery
		m, err := rcv.Read(buf)
		vAssert(err == nil && bytes.Equal(buf[:m], a), "N1b-first-frame-ok")
		m, err = rcv.Read(buf)
		vAssert(err == nil && bytes.Equal(buf[:m], b), "N1b-second-frame-ok")
		vReach("in-order-delivery")
	}
}

// N1c: a frame whose length field exceeds dataMaxSize is rejected (no panic, no over-read).
func VerifHarness_C20_N1_oversized_length_field() {
	snd, rcv, pipe := vC20Pair()
	frame := make([]byte, totalFrameSize)
	frame[0], frame[1] = vNondetByte("len.hi"), vNondetByte("len.lo")
	sealed := make([]byte, sealedFrameSize)
	vC20Seal(snd, sealed, frame)
	pipe.Write(sealed)
	buf := make([]byte, 2000)
	m, err := rcv.Read(buf)
	l := int(frame[0])<<8 | int(frame[1])
	if l > dataMaxSize {
		vAssert(err != nil && m == 0, "N1c-oversized-length-rejected")
	} else {
		vReach("accepted")
		vAssert(err == nil && m == l, "N1c-length-field-honoured")
	}
}

// N2: incr2Nonce adds 2 (mod 2^192) big-endian and keeps the low bit, so the two directions
// (which start with different low bits) never use the same nonce.
func VerifHarness_C20_N2_nonce_increment() {
	var nn [24]byte
	// the low 3 bytes and one high byte are symbolic, the rest 0xFF or 0x00 (carry chains of any length)
	fill := byte(0)
	if vNondetBool("ones") {
		fill = 0xFF
	}
	for i := range nn {
		nn[i] = fill
	}
	nn[23], nn[22], nn[21], nn[5] = vNondetByte("b23"), vNondetByte("b22"), vNondetByte("b21"), vNondetByte("b5")
	before := nn
	incr2Nonce(&nn)
	// reference: big-endian add 2 with carry
	carry := 2
	var want [24]byte
	for i := 23; i >= 0; i-- {
		s := int(before[i]) + carry
		want[i] = byte(s)
		carry = s >> 8
	}
	vAssert(nn == want, "N2-nonce-plus-two")
	vAssert(nn[23]&1 == before[23]&1, "N2-low-bit-preserved")
	vAssert(nn != before, "N2-nonce-changes")
	vReach("incremented")
}

// N3: packetisation. A message of any length is cut into packets of <= 1024 bytes, EOF exactly on
// the last one, reassembled exactly, and consecutive messages stay separate.
func VerifHarness_C20_N3_packetisation() {
	desc := &ChannelDescriptor{ID: 0x20, Priority: 1, SendQueueCapacity: 4, RecvBufferCapacity: 4096, RecvMessageCapacity: 4096}
	sch := newChannel(nil, desc)
	rch := newChannel(nil, &ChannelDescriptor{ID: 0x20, Priority: 1, SendQueueCapacity: 4, RecvBufferCapacity: 4096, RecvMessageCapacity: 4096})
	lens := []int{0, 1, 1023, 1024, 1025, 2047, 2048, 2049, 3072}
	l1 := lens[vNondetLen("len1", 0, len(lens)-1)]
	l2 := lens[vNondetLen("len2", 0, 3)]
	m1, m2 := vC20Msg("m1", l1), vC20Msg("m2", l2)
	vAssert(sch.trySendBytes(m1) && sch.trySendBytes(m2), "N3-queued")
	var got [][]byte
	packets := 0
	for it := 0; it < 10 && sch.isSendPending(); it++ {
		p := sch.nextMsgPacket()
		packets++
		vAssert(len(p.Bytes) <= maxMsgPacketPayloadSize, "N3-packet-payload-bounded")
		vAssert(p.ChannelID == 0x20, "N3-channel-id")
		msg, err := rch.recvMsgPacket(p)
		vAssert(err == nil, "N3-no-receive-error-within-capacity")
		if msg != nil {
			vAssert(p.EOF == 1, "N3-message-completes-only-on-eof")
			got = append(got, append([]byte{}, msg...))
		}
	}
	vReach("drained")
	vAssert(!sch.isSendPending(), "N3-sender-drains")
	vAssert(len(got) == 2, "N3-two-messages-delivered")
	if len(got) == 2 {
		vAssert(bytes.Equal(got[0], m1), "N3-first-message-intact")
		vAssert(bytes.Equal(got[1], m2), "N3-second-message-intact")
	}
	want := 0
	for _, l := range []int{l1, l2} {
		if l == 0 {
			want++
		} else {
			want += (l + maxMsgPacketPayloadSize - 1) / maxMsgPacketPayloadSize
		}
	}
	vAssert(packets == want, "N3-packet-count")
	vAssert(sch.loadSendQueueSize() == 0, "N3-send-queue-size-back-to-zero")
}

// N3b: a message beyond the receive capacity is an error, not a panic.
func VerifHarness_C20_N3_capacity() {
	rch := newChannel(nil, &ChannelDescriptor{ID: 0x20, Priority: 1, SendQueueCapacity: 1, RecvBufferCapacity: 16, RecvMessageCapacity: 8})
	total := 0
	for it := 0; it < 3; it++ {
		l := vNondetLen("plen", 0, 6)
		p := msgPacket{ChannelID: 0x20, EOF: byte(vNondetLen("eof", 0, 1)), Bytes: vC20Msg("p", l)}
		before := len(rch.recving)
		msg, err := rch.recvMsgPacket(p)
		if before+l > 8 {
			vAssert(err != nil && msg == nil, "N3b-over-capacity-is-error")
			vReach("over-capacity")
			return
		}
		vAssert(err == nil, "N3b-within-capacity-ok")
		total = before + l
		if p.EOF == 1 {
			vAssert(len(msg) == total, "N3b-complete-message-length")
		}
	}
}

// vC20Seal seals one frame with the sender's current nonce (real secretbox natively).
func vC20Seal(sc *SecretConnection, out []byte, frame []byte) {
	vSealInto(out, frame, sc.sendNonce, sc.shrSecret)
	incr2Nonce(sc.sendNonce)
}

// N2b: the two directions of a connection use DIFFERENT nonce sequences (otherwise a frame a node
// sent can be played back to it and decrypts): the nonces differ exactly in the lowest bit, and
// the two ends mirror each other (what one sends with, the other receives with).
func VerifHarness_C20_N2_direction_nonces() {
	var lo, hi [32]byte
	lo[0], hi[0] = 1, 2
	lo[31], hi[31] = byte(vNondetLen("lo", 0, 3)), byte(vNondetLen("hi", 0, 3))
	aRecv, aSend := genNonces(&lo, &hi, true)  // the end holding the lower ephemeral key
	bRecv, bSend := genNonces(&lo, &hi, false) // the other end
	vReach("nonces-generated")
	vAssert(*aRecv != *aSend && *bRecv != *bSend, "N2b-send-and-receive-nonces-differ")
	vAssert(*aSend == *bRecv && *bSend == *aRecv, "N2b-the-two-ends-mirror-each-other")
	d := *aRecv
	d[23] ^= 0x01
	vAssert(d == *aSend, "N2b-directions-differ-exactly-in-the-lowest-bit")
	// stepping by two keeps the directions apart for ever
	incr2Nonce(aSend)
	vAssert(aSend[23]&1 != aRecv[23]&1, "N2b-parity-kept-apart-after-increment")
}

package p2p

import "golang.org/x/crypto/nacl/secretbox"

func vSealInto(out []byte, frame []byte, nonce *[24]byte, key *[32]byte) {
	secretbox.Seal(out[:0], frame, nonce, key)
}

package gemmill

import (
	dbm "github.com/dappledger/AnnChain/gemmill/modules/go-db"
	"github.com/dappledger/AnnChain/gemmill/state"
)

// vRecInit gives a State its database and seam fakes (db is an unexported field: the only way in
// from outside the package is through a state loaded from / made for that db)
func vRecInit(s *state.State, db dbm.DB) {
	state.VerifSetDB(s, db)
	s.SetBlockExecutable(vRecExec{})
	s.SetBlockVerifier(vRecVerifier{})
}

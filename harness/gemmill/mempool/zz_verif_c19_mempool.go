package mempool

// C19 (the gemmill mempool used in raft mode) — every history of K operations (submit one of 3
// transactions, possibly while ANOTHER caller submits the same bytes at the same time; a block
// commits any subset; reap) is compared after each step with a ghost FIFO of the accepted,
// uncommitted transactions: no transaction is pooled or offered twice, exact duplicates are refused,
// committed ones leave the pool, order is submission order.

import (
	"github.com/dappledger/AnnChain/gemmill/modules/go-clist"
	"github.com/dappledger/AnnChain/gemmill/types"
	"github.com/spf13/viper"
)

// vOverlapFilter is the application's CheckTx seen from a second goroutine: while submission 1 is
// being checked, the same transaction is submitted again by another caller (one schedule point).
type vOverlapFilter struct {
	mem      *Mempool
	armed    bool
	innerErr error
	innerRan bool
}

func (f *vOverlapFilter) CheckTx(tx types.Tx) (bool, error) {
	if f.armed {
		f.armed = false
		f.innerRan = true
		f.innerErr = f.mem.ReceiveTx(tx)
	}
	return true, nil
}

func vMemTx(t int) types.Tx { return types.Tx{0xAB, byte(t)} }

func vMemHas(q []int, t int) bool {
	for _, x := range q {
		if x == t {
			return true
		}
	}
	return false
}

func vMemCheck(mem *Mempool, ghost []int) {
	var got []int
	for e := mem.txs.Front(); e != nil && len(got) <= 8; e = e.Next() {
		got = append(got, int(e.Value.(*types.TxInPool).Tx[1]))
	}
	same := len(got) == len(ghost)
	for i := 0; same && i < len(got); i++ {
		same = got[i] == ghost[i]
	}
	vAssert(same, "pool-holds-each-accepted-uncommitted-tx-once-in-order")
	vAssert(mem.Size() == len(ghost), "pool-size-consistent")
}

func VerifHarness_C19_gemmill_mempool() {
	conf := viper.New()
	if vSymbolic() {
		vSetStub("Viper).GetBool", false)
	}
	mem := &Mempool{config: conf, txs: clist.New(), cache: newTxCache(16), txLimit: 100}
	filter := &vOverlapFilter{mem: mem}
	mem.RegisterFilter(filter)
	var ghost []int
	k := vParam("K", 3)
	for i := 0; i < k; i++ {
		if vNondetBool("submit") {
			t := vNondetLen("tx", 1, 3)
			filter.armed, filter.innerRan = vNondetBool("another-caller-submits-the-same-tx-meanwhile"), false
			err := mem.ReceiveTx(vMemTx(t))
			filter.armed = false
			accepted := 0
			if err == nil {
				accepted++
			}
			if filter.innerRan && filter.innerErr == nil {
				accepted++
			}
			if vMemHas(ghost, t) {
				vAssert(accepted == 0 && err == ErrTxInCache, "pooled-tx-refused-as-duplicate")
			} else {
				vAssert(accepted == 1, "new-tx-accepted-exactly-once-even-when-submitted-concurrently")
				ghost = append(ghost, t)
				vReach("accepted")
			}
		} else {
			gone := make([]bool, 4)
			var txs []types.Tx
			for t := 1; t <= 3; t++ {
				if vNondetBool("in-block") {
					gone[t] = true
					txs = append(txs, vMemTx(t))
				}
			}
			mem.Update(int64(i+1), txs)
			var rest []int
			for _, x := range ghost {
				if !gone[x] {
					rest = append(rest, x)
				}
			}
			ghost = rest
			vReach("block-committed")
		}
		vMemCheck(mem, ghost)
	}
	max := vNondetLen("max", -1, 3)
	reaped := mem.Reap(max)
	want := max
	if max < 0 || max > len(ghost) {
		want = len(ghost)
	}
	vAssert(len(reaped) == want, "reap-offers-pooled-txs-up-to-max")
	for i := 0; i < len(reaped) && i < want; i++ {
		vAssert(int(reaped[i][1]) == ghost[i], "reap-offers-each-tx-once-in-submission-order")
	}
	vReach("reaped")
}

package plugin

// C14 — validator-set changes need +2/3 of DISTINCT validators and apply at end of block.
// JSON decoding and ed25519 are seams: under the engine json.Unmarshal returns the object the
// harness bound to the bytes, and a signature verifies iff its first byte is 1; natively the
// harness marshals real JSON and signs with real keys.

import (
	"bytes"
	"encoding/json"
	"sort"

	"github.com/spf13/viper"

	"github.com/dappledger/AnnChain/gemmill/go-crypto"
	"github.com/dappledger/AnnChain/gemmill/p2p"
	"github.com/dappledger/AnnChain/gemmill/refuse_list"
	agtypes "github.com/dappledger/AnnChain/gemmill/types"
)

type vC14App struct {
	nonce uint64
	from  []byte
}

func (a vC14App) GetNonce() uint64 { return a.nonce }
func (a vC14App) From() []byte     { return a.from }

type vC14Key struct {
	priv crypto.PrivKey
	pub  []byte
}

func vC14Keys(n int) []vC14Key {
	ks := make([]vC14Key, n)
	for i := range ks {
		if vSymbolic() {
			pub := make([]byte, 32)
			pub[0] = byte(i + 1)
			ks[i] = vC14Key{pub: pub}
		} else {
			pk := crypto.GenPrivKeyEd25519()
			ks[i] = vC14Key{priv: pk, pub: crypto.GetNodePubkeyBytes(pk.PubKey())}
		}
	}
	return ks
}

func (k vC14Key) sign(msg []byte, valid bool) []byte {
	sig := make([]byte, 64)
	if vSymbolic() {
		sig[0] = byte(vIteInt64(valid, 1, 0)) // no fork on validity
		return sig
	}
	if valid {
		return crypto.GetNodeSigBytes(k.priv.Sign(msg))
	}
	return sig
}

func vC14Marshal(tag string, o interface{}) []byte {
	if vSymbolic() {
		m := vNondetBytes(tag, 2)
		vJSONBind(m, o)
		return m
	}
	b, err := json.Marshal(o)
	if err != nil {
		panic(err)
	}
	return b
}

func vC14Sorted(vs *agtypes.ValidatorSet) bool {
	for i := 1; i < len(vs.Validators); i++ {
		if bytes.Compare(vs.Validators[i-1].Address, vs.Validators[i].Address) >= 0 {
			return false
		}
	}
	return true
}

func VerifHarness_C14_admin_request() {
	n := vParam("N", 3)
	maxSig := vParam("S", 3)
	keys := vC14Keys(n + 1) // the last key is not a validator
	vals := make([]*agtypes.Validator, n)
	pw := make([]int64, n)
	total := int64(0)
	for i := 0; i < n; i++ {
		pw[i] = int64(vNondetRange("power", 0, vParam("P", 8)))
		total += pw[i]
		vals[i] = agtypes.NewValidator(crypto.SetNodePubkey(keys[i].pub), pw[i], true)
		vals[i].Accum = int64(i)
	}
	vAssume(total > 0)
	sort.Sort(agtypes.ValidatorsByAddress(vals))
	set := &agtypes.ValidatorSet{Validators: vals}
	keyOf := make([]int, n)
	_ = keyOf
	for i, v := range vals {
		for j := 0; j < n; j++ {
			if bytes.Equal(v.Address, crypto.SetNodePubkey(keys[j].pub).Address()) {
				keyOf[i] = j
			}
		}
	}
	setPtr := set
	var sw *p2p.Switch
	var rl *refuse_list.RefuseList
	if vSymbolic() {
		sw, rl = &p2p.Switch{}, &refuse_list.RefuseList{}
	} else {
		sw, rl = p2p.NewSwitch(viper.New()), refuse_list.NewRefuseList("memdb", "")
	}
	op := &AdminOp{}
	op.Init(&InitParams{Validators: &setPtr, Switch: sw, RefuseList: rl})

	// the request
	target := vNondetLen("target", 0, n) // n = a key outside the set
	cmdSel := vNondetLen("cmd", 0, 3)
	cmds := []agtypes.ValidatorCmd{agtypes.ValidatorCmdAddPeer, agtypes.ValidatorCmdUpdateNode, agtypes.ValidatorCmdRemoveNode, "bogus"}
	newPower := int64(vNondetRange("newpower", 0, vParam("P", 8)))
	sender := []byte{7}
	attr := &agtypes.ValidatorAttr{PubKey: keys[target].pub, Power: newPower, Cmd: cmds[cmdSel], Addr: []byte{vNondetByte("attr.addr")},
		Nonce: vNondetUint64("attr.nonce")}
	msg := vC14Marshal("msg", attr)
	nsig := vNondetLen("nsig", 0, maxSig)
	sinfos := make([]agtypes.SigInfo, nsig)
	signed := make([]bool, n+1) // distinct validators with a valid signature in the list
	// the raw key bytes of a list entry may carry trailing garbage (only the first 32 bytes make the
	// key): the j-th entry gets j extra bytes, so entries naming the same validator differ as byte strings
	padded := vNondetBool("sig.padded-keys")
	for j := 0; j < nsig; j++ {
		who := vNondetLen("sig.who", 0, n)
		ok := vNondetBool("sig.valid")
		raw := keys[who].pub
		if padded {
			raw = append(append([]byte{}, raw...), []byte{0x00, 0x01, 0x02, 0x03}[:j]...)
		}
		sinfos[j] = agtypes.SigInfo{PubKey: raw, Signature: keys[who].sign(msg, ok)}
		signed[who] = vOr(signed[who], ok)
	}
	goodType := vNondetBool("goodtype")
	cmd := &agtypes.AdminOPCmd{CmdType: agtypes.AdminOpChangeValidator, Msg: msg, SInfos: sinfos,
		SelfSign: keys[target].sign(msg, vNondetBool("selfsign.valid"))}
	if !goodType {
		cmd.CmdType = "somethingElse"
	}
	app := vC14App{nonce: vNondetUint64("app.nonce"), from: sender}
	tx := agtypes.TagAdminOPTx(vC14Marshal("cmd", cmd))

	distinct := int64(0)
	for i := 0; i < n; i++ {
		distinct += vIteInt64(signed[i], pw[i], 0)
	}
	beforeAddr := make([][]byte, n)
	beforePow := make([]int64, n)
	for i, v := range set.Validators {
		beforeAddr[i], beforePow[i] = v.Address, v.VotingPower
	}

	err := op.ExecTX(app, tx) // real code

	changed := len(op.ChangedValidators) > 0
	if changed {
		vReach("change-recorded")
		vAssert(err == nil, "recorded-change-has-no-error")
		vAssert(distinct*3 > total*2, "change-needs-two-thirds-of-distinct-validators")
		vAssert(goodType, "change-needs-known-command-type")
		vAssert(bytes.Equal(attr.Addr, sender), "change-needs-matching-sender")
		vAssert(attr.Nonce+1 == app.nonce, "change-needs-matching-nonce")
		vAssert(cmdSel <= 2, "change-needs-known-validator-command")
		vAssert(len(op.ChangedValidators) == 1, "exactly-one-change")
		if len(op.ChangedValidators) == 1 {
			got := op.ChangedValidators[0]
			vAssert(bytes.Equal(got.PubKey, attr.PubKey) && got.Power == attr.Power && got.Cmd == attr.Cmd, "exactly-the-named-change")
		}
	} else {
		vReach("no-change-recorded")
	}
	// nothing is applied before the end of the block
	vAssert(setPtr == set && len(set.Validators) == n, "set-untouched-before-end-of-block")
	for i, v := range set.Validators {
		vAssert(bytes.Equal(v.Address, beforeAddr[i]) && v.VotingPower == beforePow[i], "validators-untouched-before-end-of-block")
	}
	// under-signed requests are refused with an error
	vAssert(vImplies(!(distinct*3 > total*2), err != nil && !changed), "under-signed-request-refused")

	// end of block: exactly the named validator changes, in the NEXT set
	next := set.Copy()
	targetAddr := crypto.SetNodePubkey(keys[target].pub).Address()
	wasMember := set.HasAddress(targetAddr)
	_, eerr := op.EndBlock(&EndBlockParams{NextValidatorSet: next})
	vAssert(len(op.ChangedValidators) == 0, "pending-changes-reset-at-end-of-block")
	vAssert(vC14Sorted(next), "next-set-sorted-duplicate-free")
	sumNext := int64(0)
	for _, v := range next.Validators {
		sumNext += v.VotingPower
	}
	vAssert(next.TotalVotingPower() == sumNext, "next-set-total-power-is-sum-of-powers")
	if len(next.Validators) > 0 {
		vAssert(next.HasAddress(next.Proposer().Address), "next-set-proposer-is-member")
	}
	if eerr == nil {
		vAssert(setPtr == next, "plugin-switches-to-next-set")
		if changed {
			vReach("change-applied")
			_, nv := next.GetByAddress(targetAddr)
			switch cmdSel {
			case 0, 1:
				vAssert(nv != nil && nv.VotingPower == newPower, "add-or-update-applied")
			case 2:
				vAssert(nv == nil && wasMember, "remove-applied")
			}
		}
		// every other validator is unchanged
		for i := 0; i < n; i++ {
			if !bytes.Equal(beforeAddr[i], targetAddr) || !changed {
				_, ov := next.GetByAddress(beforeAddr[i])
				vAssert(ov != nil && ov.VotingPower == beforePow[i], "other-validators-unchanged")
			}
		}
	}
	// the set in force during this block is still the old one
	for i, v := range set.Validators {
		vAssert(bytes.Equal(v.Address, beforeAddr[i]) && v.VotingPower == beforePow[i], "current-set-unaffected-by-next")
	}
}

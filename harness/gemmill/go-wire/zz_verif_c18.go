package wire

// C18 — go-wire non-reflective kernels: varint / uvarint / byte slices.

import "bytes"

func vAbs(i int) uint64 {
	if i < 0 {
		return uint64(-i)
	}
	return uint64(i)
}

// K1a: GetVarint(PutVarint(i)) == i for every int (incl. MinInt64); sizes agree with
// UvarintSize; the stream forms WriteVarint / ReadVarint agree with Put / Get.
func VerifHarness_C18_K1_varint_roundtrip() {
	i := vNondetInt("i")
	var buf [9]byte
	n, err := PutVarint(buf[:], i)
	vAssert(err == nil, "K1-put-ok")
	vAssert(n == UvarintSize(vAbs(i)), "K1-size")
	j, m, err2 := GetVarint(buf[:n])
	vAssert(err2 == nil && j == i && m == n, "K1-get-inverts-put")
	var bb bytes.Buffer
	var cnt int
	var werr error
	WriteVarint(i, &bb, &cnt, &werr)
	vAssert(werr == nil && cnt == n && bytes.Equal(bb.Bytes(), buf[:n]), "K1-write-equals-put")
	var cnt2 int
	var rerr error
	k := ReadVarint(bytes.NewReader(buf[:n]), &cnt2, &rerr)
	vAssert(rerr == nil && k == i && cnt2 == n, "K1-read-inverts-write")
	// a too-short buffer is an error, not a panic
	short := vNondetLen("short", 0, 8)
	if short < n {
		_, err3 := PutVarint(buf[:short], i)
		vAssert(err3 != nil, "K1-put-short-buffer-error")
	}
	vReach("roundtrip-done")
}

func VerifHarness_C18_K1_uvarint_roundtrip() {
	i := vNondetUint64("u")
	var buf [9]byte
	n, err := PutUvarint(buf[:], uint(i))
	vAssert(err == nil && n == UvarintSize(i), "K1u-put-ok-size")
	j, m, err2 := GetUvarint(buf[:n])
	vAssert(err2 == nil && uint64(j) == i && m == n, "K1u-get-inverts-put")
	var bb bytes.Buffer
	var cnt int
	var werr error
	WriteUvarint(uint(i), &bb, &cnt, &werr)
	vAssert(werr == nil && cnt == n && bytes.Equal(bb.Bytes(), buf[:n]), "K1u-write-equals-put")
	var cnt2 int
	var rerr error
	k := ReadUvarint(bytes.NewReader(buf[:n]), &cnt2, &rerr)
	vAssert(rerr == nil && uint64(k) == i && cnt2 == n, "K1u-read-inverts-write")
	vReach("roundtrip-done")
}

// K1c: decoding an arbitrary buffer never panics, never reports more bytes than it was
// given, and the buffer and stream decoders agree.
func VerifHarness_C18_K1_varint_decode_robust() {
	l := vNondetLen("len", 0, vParam("L", 10))
	buf := vNondetBytes("buf", l)
	i, n, err := GetVarint(buf)
	if err != nil {
		vAssert(n == 0 && i == 0, "K1c-error-consumes-nothing")
	} else {
		vReach("decoded")
		vAssert(n >= 1 && n <= l, "K1c-consumed-within-buffer")
		vAssert(n == 1+int(buf[0]&0x0F), "K1c-consumed-is-size-plus-one")
	}
	var cnt int
	var rerr error
	k := ReadVarint(bytes.NewReader(buf), &cnt, &rerr)
	vAssert(cnt <= l, "K1c-stream-reads-within-input")
	if err == nil {
		vAssert(rerr == nil && k == i && cnt == n, "K1c-stream-agrees-with-buffer")
	}
	u, un, uerr := GetUvarint(buf)
	if uerr == nil {
		vAssert(un >= 1 && un <= l, "K1c-uvarint-consumed-within-buffer")
		var ucnt int
		var urerr error
		uk := ReadUvarint(bytes.NewReader(buf), &ucnt, &urerr)
		vAssert(urerr == nil && uk == u && ucnt == un, "K1c-uvarint-stream-agrees")
	}
}

// K2a: byte slices round trip through both the buffer and the stream codec.
func VerifHarness_C18_K2_byteslice_roundtrip() {
	l := vNondetLen("len", 0, vParam("L", 5))
	bz := vNondetBytes("bz", l)
	buf := make([]byte, l+9)
	n, err := PutByteSlice(buf, bz)
	vAssert(err == nil && n == ByteSliceSize(bz), "K2-put-ok-size")
	out, m, err2 := GetByteSlice(buf[:n])
	vAssert(err2 == nil && m == n && bytes.Equal(out, bz), "K2-get-inverts-put")
	var bb bytes.Buffer
	var cnt int
	var werr error
	WriteByteSlice(bz, &bb, &cnt, &werr)
	vAssert(werr == nil && cnt == n && bytes.Equal(bb.Bytes(), buf[:n]), "K2-write-equals-put")
	lmt := vNondetLen("lmt", 0, l+9)
	var cnt2 int
	var rerr error
	back := ReadByteSlice(bytes.NewReader(buf[:n]), lmt, &cnt2, &rerr)
	if lmt == 0 || lmt >= n {
		vAssert(rerr == nil && bytes.Equal(back, bz) && cnt2 == n, "K2-read-inverts-write")
	} else {
		vAssert(rerr != nil, "K2-read-over-limit-is-error")
	}
	vReach("roundtrip-done")
}

// K2b: with a limit, ReadByteSlice never allocates (returns) more than the limit, whatever the
// length prefix says - negative, huge, or chosen so that *n+length wraps - and never panics.
func VerifHarness_C18_K2_read_byteslice_bounded() {
	l := vNondetLen("len", 0, vParam("L", 10))
	buf := vNondetBytes("buf", l)
	lmt := vNondetRange("lmt", 1, vParam("LMT", 6))
	n := vNondetInt("n0")
	vAssume(n >= 0)
	var err error
	out := ReadByteSlice(bytes.NewReader(buf), lmt, &n, &err)
	if err == nil {
		vReach("accepted")
		vAssert(len(out) <= lmt, "K2b-allocation-bounded-by-limit")
		vAssert(len(out) <= l, "K2b-no-more-than-input")
	} else {
		vAssert(len(out) <= lmt, "K2b-error-path-allocation-bounded")
	}
}

// K2c: GetByteSlice on an arbitrary buffer.
func VerifHarness_C18_K2_get_byteslice_robust() {
	l := vNondetLen("len", 0, vParam("L", 10))
	buf := vNondetBytes("buf", l)
	out, n, err := GetByteSlice(buf)
	if err == nil {
		vReach("accepted")
		vAssert(n <= l && len(out) <= n, "K2c-within-buffer")
		vAssert(bytes.Equal(out, buf[n-len(out):n]), "K2c-content-is-buffer-tail")
	} else {
		vAssert(out == nil && n == 0, "K2c-error-returns-nothing")
	}
}

package types

// C18 — sign-bytes: which fields reach the signed canonical struct. wire.WriteJSON is an
// injective uninterpreted function of its argument under the engine (JSON injectivity itself
// is reflection and outside the claim); natively the real encoder runs.

import "bytes"

func vC18BlockID(tag string) BlockID {
	return BlockID{Hash: vNondetBytes(tag+".hash", vNondetLen(tag+".hashlen", 0, 2)),
		PartsHeader: PartSetHeader{Total: vNondetInt(tag + ".total"), Hash: vNondetBytes(tag+".phash", vNondetLen(tag+".phashlen", 0, 2))}}
}

func vC18SameBlockID(a, b BlockID) bool {
	return bytes.Equal(a.Hash, b.Hash) && a.PartsHeader.Total == b.PartsHeader.Total && bytes.Equal(a.PartsHeader.Hash, b.PartsHeader.Hash)
}

func vC18Chain(tag string) string {
	if vNondetBool(tag) {
		return "chain-A"
	}
	return "chain-B"
}

// K4a: two votes with equal sign-bytes agree on chain id, height, round, type and block id.
func VerifHarness_C18_K4_vote_signbytes_injective() {
	c1, c2 := vC18Chain("c1"), vC18Chain("c2")
	v1 := &Vote{Height: vNondetInt64("h1"), Round: vNondetInt64("r1"), Type: vNondetByte("t1"), BlockID: vC18BlockID("b1"),
		ValidatorIndex: vNondetInt("i1"), ValidatorAddress: vNondetBytes("a1", 1)}
	v2 := &Vote{Height: vNondetInt64("h2"), Round: vNondetInt64("r2"), Type: vNondetByte("t2"), BlockID: vC18BlockID("b2"),
		ValidatorIndex: vNondetInt("i2"), ValidatorAddress: vNondetBytes("a2", 1)}
	s1 := SignBytes(c1, v1)
	s2 := SignBytes(c2, v2)
	if bytes.Equal(s1, s2) {
		vReach("equal-signbytes")
		vAssert(c1 == c2, "K4-chain-id-signed")
		vAssert(v1.Height == v2.Height, "K4-height-signed")
		vAssert(v1.Round == v2.Round, "K4-round-signed")
		vAssert(v1.Type == v2.Type, "K4-type-signed")
		vAssert(vC18SameBlockID(v1.BlockID, v2.BlockID), "K4-blockid-signed")
	}
}

// K4b: same for proposals; and a proposal's sign-bytes never equal a vote's.
func VerifHarness_C18_K4_proposal_signbytes_injective() {
	c1, c2 := vC18Chain("c1"), vC18Chain("c2")
	p1 := &Proposal{Height: vNondetInt64("h1"), Round: vNondetInt64("r1"), POLRound: vNondetInt64("pr1"), POLBlockID: vC18BlockID("pb1"),
		BlockPartsHeader: PartSetHeader{Total: vNondetInt("t1"), Hash: vNondetBytes("ph1", vNondetLen("phl1", 0, 2))}}
	p2 := &Proposal{Height: vNondetInt64("h2"), Round: vNondetInt64("r2"), POLRound: vNondetInt64("pr2"), POLBlockID: vC18BlockID("pb2"),
		BlockPartsHeader: PartSetHeader{Total: vNondetInt("t2"), Hash: vNondetBytes("ph2", vNondetLen("phl2", 0, 2))}}
	s1 := SignBytes(c1, p1)
	s2 := SignBytes(c2, p2)
	if bytes.Equal(s1, s2) {
		vReach("equal-signbytes")
		vAssert(c1 == c2, "K4p-chain-id-signed")
		vAssert(p1.Height == p2.Height && p1.Round == p2.Round, "K4p-height-round-signed")
		vAssert(p1.POLRound == p2.POLRound && vC18SameBlockID(p1.POLBlockID, p2.POLBlockID), "K4p-pol-signed")
		vAssert(p1.BlockPartsHeader.Total == p2.BlockPartsHeader.Total && bytes.Equal(p1.BlockPartsHeader.Hash, p2.BlockPartsHeader.Hash), "K4p-parts-header-signed")
	}
	v := &Vote{Height: p1.Height, Round: p1.Round, Type: VoteTypePrevote, BlockID: p1.POLBlockID}
	vAssert(!bytes.Equal(SignBytes(c1, v), s1), "K4p-vote-and-proposal-domains-disjoint")
}

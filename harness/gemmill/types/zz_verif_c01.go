package types

// C01 — agreement rests on quorum intersection with the REAL thresholds: any two vote sets that
// the code reports as +2/3 majorities share validators holding more than one third of the power.

func VerifHarness_C01_quorum_intersection() {
	n := vParam("N", 3)
	valSet, pw := vC15ValSet(n, vParam("P", 1000))
	total := int64(0)
	for _, p := range pw {
		total += p
	}
	a := NewVoteSet("chain", 5, 0, VoteTypePrecommit, valSet)
	b := NewVoteSet("chain", 5, 1, VoteTypePrecommit, valSet)
	both := int64(0)
	for i := 0; i < n; i++ {
		inA, inB := vNondetBool("inA"), vNondetBool("inB")
		if inA {
			added, err := a.AddVote(&Vote{ValidatorIndex: i, ValidatorAddress: []byte{byte(i + 1)}, Height: 5, Round: 0, Type: VoteTypePrecommit,
				BlockID: vC15Block(1), Signature: vFakeSig{Valid: true, ID: byte(i)}})
			vAssert(added && err == nil, "O1-vote-added")
		}
		if inB {
			added, err := b.AddVote(&Vote{ValidatorIndex: i, ValidatorAddress: []byte{byte(i + 1)}, Height: 5, Round: 1, Type: VoteTypePrecommit,
				BlockID: vC15Block(2), Signature: vFakeSig{Valid: true, ID: byte(10 + i)}})
			vAssert(added && err == nil, "O1-vote-added")
		}
		if inA && inB {
			both += pw[i]
		}
	}
	_, okA := a.TwoThirdsMajority()
	_, okB := b.TwoThirdsMajority()
	if okA && okB {
		vReach("two-majorities")
		vAssert(both*3 > total, "O1-two-majorities-share-more-than-a-third")
	}
	if okA {
		// the commit built from a majority verifies with the same threshold
		vAssert(valSet.VerifyCommit("chain", vC15Block(1), 5, a.MakeCommit()) == nil, "O1-commit-threshold-consistent")
		// and a majority leaves less than two thirds for anything else
		rest := total
		for i := 0; i < n; i++ {
			if a.votes[i] != nil {
				rest -= pw[i]
			}
		}
		vAssert(rest*3 < total, "O1-less-than-a-third-outside-a-majority")
	}
	// two-thirds-any is implied by a majority
	vAssert(vImplies(okA, a.HasTwoThirdsAny()), "O1-majority-implies-two-thirds-any")
}

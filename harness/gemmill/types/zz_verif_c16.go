package types

// C16 — proposer selection. Harnesses executed symbolically by gosmt and natively on replay.

import "bytes"

func vC16MkSet(n int, symAddr bool) *ValidatorSet {
	vals := make([]*Validator, n)
	for i := 0; i < n; i++ {
		p := vNondetInt64("power")
		a := vNondetInt64("accum")
		vAssume(p >= 1 && p <= int64(vParam("PMAX", 1<<20)))
		vAssume(a > -(1<<40) && a < 1<<40)
		addr := []byte{byte(i + 1)}
		if symAddr {
			addr = []byte{vNondetByte("addr")}
			if i > 0 {
				vAssume(vals[i-1].Address[0] < addr[0])
			}
		}
		vals[i] = &Validator{Address: addr, VotingPower: p, Accum: a}
	}
	return &ValidatorSet{Validators: vals}
}

// D1: IncrementAccum(k) must equal k times IncrementAccum(1) (a replica that skipped
// rounds must agree with one that went through every round).
func VerifHarness_C16_D1_batch_equals_single() {
	n := vParam("N", 3)
	k := vParam("K", 2)
	a := vC16MkSet(n, false)
	b := a.Copy()
	a.IncrementAccum(int64(k))
	for i := 0; i < k; i++ {
		b.IncrementAccum(1)
	}
	vReach("both-incremented")
	for i := range a.Validators {
		vAssert(a.Validators[i].Accum == b.Validators[i].Accum, "D1-accum-equal")
	}
	vAssert(bytes.Equal(a.Proposer().Address, b.Proposer().Address), "D1-proposer-equal")
}

// D2: the proposer of a set equals the proposer of its persistence image
// (only Validators is persisted; the unexported caches are lost on reload).
func VerifHarness_C16_D2_proposer_survives_reload() {
	n := vParam("N", 3)
	a := vC16MkSet(n, false)
	a.IncrementAccum(1)
	img := &ValidatorSet{Validators: make([]*Validator, n)}
	for i, v := range a.Validators {
		img.Validators[i] = v.Copy()
	}
	vReach("reloaded")
	vAssert(bytes.Equal(a.Proposer().Address, img.Proposer().Address), "D2-proposer-after-reload")
}

// D3: fairness. From accum == 0, T = sum of powers single increments select validator i
// exactly power_i times and bring every accum back to 0.
func VerifHarness_C16_D3_fairness() {
	n := vParam("N", 3)
	maxT := vParam("T", 5)
	vals := make([]*Validator, n)
	total := 0
	pw := make([]int, n)
	for i := 0; i < n; i++ {
		pw[i] = vNondetRange("power", 1, maxT)
		total += pw[i]
		vals[i] = &Validator{Address: []byte{byte(i + 1)}, VotingPower: int64(pw[i])}
	}
	vAssume(total <= maxT)
	vs := &ValidatorSet{Validators: vals}
	count := make([]int, n)
	for s := 0; s < total; s++ {
		vs.IncrementAccum(1)
		p := vs.Proposer()
		count[int(p.Address[0])-1]++
	}
	vReach("period-complete")
	for i := 0; i < n; i++ {
		vAssert(count[i] == pw[i], "D3-selected-power-times")
		vAssert(vs.Validators[i].Accum == 0, "D3-accum-returns-to-zero")
	}
}

func vC16Sorted(vs *ValidatorSet) bool {
	for i := 1; i < len(vs.Validators); i++ {
		if bytes.Compare(vs.Validators[i-1].Address, vs.Validators[i].Address) >= 0 {
			return false
		}
	}
	return true
}

// D4: Add/Update/Remove keep the set sorted and duplicate-free, invalidate the caches,
// and never affect a copy handed out earlier.
func VerifHarness_C16_D4_mutation() {
	n := vParam("N", 2)
	vs := vC16MkSet(n, true)
	if vNondetBool("warm") {
		vs.IncrementAccum(1) // warm caches (a freshly reloaded set has cold ones)
	}
	cp := vs.Copy()
	cpProp := cp.Proposer().Address[0]
	cpTotal := cp.TotalVotingPower()
	snapAddr := make([]byte, n)
	snapPow := make([]int64, n)
	snapAcc := make([]int64, n)
	for i, v := range cp.Validators {
		snapAddr[i], snapPow[i], snapAcc[i] = v.Address[0], v.VotingPower, v.Accum
	}
	op := vNondetLen("op", 0, 2)
	addr := []byte{vNondetByte("opaddr")}
	pw := vNondetInt64("oppower")
	vAssume(pw >= 0 && pw <= 1<<20)
	present := vs.HasAddress(addr)
	sumBefore := int64(0)
	for _, v := range vs.Validators {
		sumBefore += v.VotingPower
	}
	oldPw := int64(0)
	if present {
		_, ov := vs.GetByAddress(addr)
		oldPw = ov.VotingPower
	}
	val := &Validator{Address: addr, VotingPower: pw}
	var changed bool
	switch op {
	case 0:
		changed = vs.Add(val)
		vAssert(changed == !present, "D4-add-iff-absent")
		if changed {
			vReach("added")
			vAssert(len(vs.Validators) == n+1, "D4-add-size")
			vAssert(vs.TotalVotingPower() == sumBefore+pw || sumBefore+pw == 0, "D4-total-after-add")
		}
	case 1:
		changed = vs.Update(val)
		vAssert(changed == present, "D4-update-iff-present")
		if changed {
			vReach("updated")
			vAssert(len(vs.Validators) == n, "D4-update-size")
			vAssert(vs.TotalVotingPower() == sumBefore-oldPw+pw || sumBefore-oldPw+pw == 0, "D4-total-after-update")
			_, nv := vs.GetByAddress(addr)
			vAssert(nv != nil && nv.VotingPower == pw, "D4-update-applied")
		}
	case 2:
		_, changed = vs.Remove(addr)
		vAssert(changed == present, "D4-remove-iff-present")
		if changed {
			vReach("removed")
			vAssert(len(vs.Validators) == n-1, "D4-remove-size")
			vAssert(!vs.HasAddress(addr), "D4-removed-gone")
			vAssert(vs.TotalVotingPower() == sumBefore-oldPw || sumBefore-oldPw == 0, "D4-total-after-remove")
		}
	}
	vAssert(vC16Sorted(vs), "D4-sorted-duplicate-free")
	if !changed {
		vAssert(len(vs.Validators) == n, "D4-unchanged-size")
	}
	// the proposer reported after the mutation is a member of the mutated set
	if len(vs.Validators) > 0 {
		p := vs.Proposer()
		vAssert(vs.HasAddress(p.Address), "D4-proposer-is-member")
	}
	// the earlier copy is untouched
	vAssert(len(cp.Validators) == n, "D4-copy-size")
	for i, v := range cp.Validators {
		vAssert(v.Address[0] == snapAddr[i] && v.VotingPower == snapPow[i] && v.Accum == snapAcc[i], "D4-copy-unaffected")
	}
	vAssert(cp.Proposer().Address[0] == cpProp, "D4-copy-proposer-unaffected")
	vAssert(cp.TotalVotingPower() == cpTotal, "D4-copy-total-unaffected")
	// and mutating the original's accums does not leak into the copy
	if len(vs.Validators) > 0 {
		vs.IncrementAccum(1)
		for i, v := range cp.Validators {
			vAssert(v.Accum == snapAcc[i], "D4-copy-accum-independent")
		}
		vAssert(cp.Proposer().Address[0] == cpProp, "D4-copy-proposer-independent")
	}
}

package types

// C17 — block parts and Merkle proofs. go-hash's hash function is an injective
// uninterpreted function under the engine (by-name stub) and the real RIPEMD-160 natively.

import (
	"bytes"
	"io"

	"github.com/dappledger/AnnChain/gemmill/go-hash"
	"github.com/dappledger/AnnChain/gemmill/modules/go-merkle"
)

func vC17Leaves(total int, leafLen int) []*Part {
	parts := make([]*Part, total)
	for i := range parts {
		parts[i] = &Part{Index: i, Bytes: vNondetBytes("leaf", leafLen)}
	}
	return parts
}

func vC17Hashables(parts []*Part) []merkle.Hashable {
	hs := make([]merkle.Hashable, len(parts))
	for i, p := range parts {
		hs[i] = p
	}
	return hs
}

// vC17Aunts builds an attacker-chosen aunt list: each aunt is either one of the hashes that
// occur in the genuine tree (pool; chosen by a symbolic index, so that a counterexample
// replays natively with the real hash values) or 20 arbitrary bytes different from all of them.
func vC17Aunts(name string, lo, hi int, pool [][]byte) [][]byte {
	n := vNondetLen(name+".n", lo, hi)
	a := make([][]byte, n)
	for i := range a {
		other := vNondetBytes(name, 20)
		for _, p := range pool {
			vAssume(!bytes.Equal(other, p))
		}
		a[i] = vSelectBytes(vNondetRange(name+".pick", -1, len(pool)-1), pool, other)
	}
	return a
}

// vC17Pool lists every hash of the genuine tree: leaves, inner nodes (as aunts of some proof) and root.
func vC17Pool(parts []*Part, root []byte, proofs []*merkle.SimpleProof) [][]byte {
	var pool [][]byte
	add := func(h []byte) {
		for _, p := range pool {
			if bytes.Equal(p, h) {
				return
			}
		}
		pool = append(pool, h)
	}
	for _, pr := range proofs {
		for _, a := range pr.Aunts {
			add(a)
		}
	}
	for _, p := range parts {
		add(p.Hash())
	}
	add(root)
	return pool
}

// M1 + M5: every generated proof verifies at its own index; the root is a function of the leaves.
func VerifHarness_C17_M1_generated_proofs_verify() {
	total := vNondetLen("total", 1, vParam("T", 4))
	parts := vC17Leaves(total, 1)
	root, proofs := merkle.SimpleProofsFromHashables(vC17Hashables(parts))
	vAssert(len(proofs) == total, "M1-one-proof-per-item")
	root2 := merkle.SimpleHashFromHashables(vC17Hashables(parts))
	vAssert(bytes.Equal(root, root2), "M5-root-deterministic")
	for i := 0; i < total; i++ {
		vAssert(proofs[i].Verify(i, total, parts[i].Hash(), root), "M1-proof-verifies")
	}
	vReach("proofs-built")
}

// M2: soundness. With an arbitrary index, leaf hash and aunt list, Verify succeeds only
// for the genuine leaf at an in-range index, with exactly the genuine aunts.
func VerifHarness_C17_M2_verify_sound() {
	total := vNondetLen("total", 1, vParam("T", 3))
	parts := vC17Leaves(total, 1)
	root, proofs := merkle.SimpleProofsFromHashables(vC17Hashables(parts))
	idx := vNondetInt("idx")
	leaf := vNondetBytes("cand", 1)
	leafHash := hash.DoHash(leaf)
	sp := merkle.SimpleProof{Aunts: vC17Aunts("aunt", 0, vParam("A", 3), vC17Pool(parts, root, proofs))}
	ok := sp.Verify(idx, total, leafHash, root)
	if ok {
		vReach("verified")
		vAssert(idx >= 0 && idx < total, "M2-index-in-range")
		if idx >= 0 && idx < total {
			i := vConcretize(idx, 0, total-1)
			vAssert(bytes.Equal(leaf, parts[i].Bytes), "M2-genuine-leaf")
			vAssert(len(sp.Aunts) == len(proofs[i].Aunts), "M2-aunt-count")
			if len(sp.Aunts) == len(proofs[i].Aunts) {
				for k := range sp.Aunts {
					vAssert(bytes.Equal(sp.Aunts[k], proofs[i].Aunts[k]), "M2-genuine-aunts")
				}
			}
		}
	}
}

// M2b: a degenerate root. No proof of any shape verifies against a nil or empty root hash, for
// any index and total (a part-set header without a hash must not make every part acceptable).
func VerifHarness_C17_M2_degenerate_root() {
	total := vNondetLen("total", 1, vParam("T", 3))
	idx := vNondetInt("idx")
	leafHash := hash.DoHash(vNondetBytes("cand", 1))
	n := vNondetLen("aunts", 0, vParam("A", 3))
	sp := merkle.SimpleProof{Aunts: make([][]byte, n)}
	for i := range sp.Aunts {
		sp.Aunts[i] = vNondetBytes("aunt", 20)
	}
	var root []byte
	if vNondetBool("empty-not-nil") {
		root = []byte{}
	}
	vAssert(!sp.Verify(idx, total, leafHash, root), "M2b-nothing-verifies-against-an-empty-root")
	// the same through the part set: a header without hash accepts nothing
	ps := NewPartSetFromHeader(PartSetHeader{Total: total, Hash: root})
	cand := &Part{Index: idx, Bytes: vNondetBytes("cand2", 1), Proof: sp}
	added, _ := ps.AddPart(cand, true)
	vAssert(!added && ps.count == 0 && !ps.IsComplete(), "M2b-header-without-hash-accepts-no-part")
	vReach("degenerate-root-checked")
}

func vC17Snapshot(ps *PartSet) (int, []*Part, []uint64) {
	ps2 := make([]*Part, len(ps.parts))
	copy(ps2, ps.parts)
	var el []uint64
	if ps.partsBitArray != nil {
		el = append(el, ps.partsBitArray.Elems...)
	}
	return ps.count, ps2, el
}

func vC17Same(ps *PartSet, c int, parts []*Part, el []uint64) bool {
	if ps.count != c || len(ps.parts) != len(parts) {
		return false
	}
	for i := range parts {
		if ps.parts[i] != parts[i] {
			return false
		}
	}
	if ps.partsBitArray != nil {
		for i := range el {
			if ps.partsBitArray.Elems[i] != el[i] {
				return false
			}
		}
	}
	return true
}

// M3: AddPart accepts a part iff it is the genuine part at that index, never panics,
// and a rejected or duplicate part leaves the set untouched.
func VerifHarness_C17_M3_addpart() {
	total := vNondetLen("total", 1, vParam("T", 3))
	gen := vC17Leaves(total, 1)
	root, proofs := merkle.SimpleProofsFromHashables(vC17Hashables(gen))
	for i := range gen {
		gen[i].Proof = *proofs[i]
	}
	ps := NewPartSetFromHeader(PartSetHeader{Total: total, Hash: root})
	// optionally one genuine part is already present
	pre := vNondetLen("pre", -1, total-1)
	if pre >= 0 {
		added, err := ps.AddPart(gen[pre], true)
		vAssert(added && err == nil, "M3-genuine-accepted")
	}
	c0, p0, e0 := vC17Snapshot(ps)
	cand := &Part{Index: vNondetInt("idx"), Bytes: vNondetBytes("cand", 1),
		Proof: merkle.SimpleProof{Aunts: vC17Aunts("aunt", 0, vParam("A", 2), vC17Pool(gen, root, proofs))}}
	added, err := ps.AddPart(cand, true) // a panic here is a finding
	if added {
		vReach("candidate-accepted")
		vAssert(err == nil, "M3-accepted-no-error")
		vAssert(cand.Index >= 0 && cand.Index < total, "M3-accepted-index-in-range")
		if cand.Index >= 0 && cand.Index < total {
			i := vConcretize(cand.Index, 0, total-1)
			vAssert(i != pre, "M3-duplicate-not-readded")
			vAssert(bytes.Equal(cand.Bytes, gen[i].Bytes), "M3-accepted-genuine-bytes")
			okProof := len(cand.Proof.Aunts) == len(gen[i].Proof.Aunts)
			for k := 0; okProof && k < len(cand.Proof.Aunts); k++ {
				okProof = bytes.Equal(cand.Proof.Aunts[k], gen[i].Proof.Aunts[k])
			}
			vAssert(okProof, "M3-accepted-part-carries-the-genuine-proof")
			vAssert(ps.count == c0+1 && ps.parts[i] == cand && ps.partsBitArray.GetIndex(i), "M3-accepted-recorded")
		}
	} else {
		vReach("candidate-rejected")
		vAssert(vC17Same(ps, c0, p0, e0), "M3-rejected-leaves-set-untouched")
	}
	vAssert(ps.count <= total, "M3-count-bounded")
}

// M4: exact reassembly. Data of any length split into parts of any size >= 1 is put back
// together from parts received in any order, with a duplicate, to exactly the original bytes.
func VerifHarness_C17_M4_reassembly() {
	n := vNondetLen("datalen", 1, vParam("D", 5))
	psz := vNondetLen("partsize", 1, vParam("P", 3))
	data := vNondetBytes("data", n)
	src := NewPartSetFromData(data, psz)
	total := src.Total()
	vAssert(total == (n+psz-1)/psz, "M4-total")
	vAssert(src.IsComplete(), "M4-source-complete")
	dst := NewPartSetFromHeader(src.Header())
	// arrival order: a symbolic permutation with one duplicate delivery
	delivered := make([]bool, total)
	for k := 0; k < total; k++ {
		i := vNondetLen("pick", 0, total-1)
		vAssume(!delivered[i])
		delivered[i] = true
		added, err := dst.AddPart(src.GetPart(i), true)
		vAssert(added && err == nil, "M4-genuine-part-accepted")
		if k == 0 {
			again, err2 := dst.AddPart(src.GetPart(i), true)
			vAssert(!again && err2 == nil, "M4-duplicate-ignored")
		}
		vAssert(dst.IsComplete() == (k == total-1), "M4-complete-iff-all")
	}
	vReach("all-parts-delivered")
	vAssert(dst.HashesTo(src.Hash()), "M4-hash")
	r := dst.GetReader()
	out := make([]byte, 0, n+1)
	buf := make([]byte, vNondetLen("readbuf", 1, 3))
	for it := 0; it < 2*n+4; it++ {
		m, err := r.Read(buf)
		out = append(out, buf[:m]...)
		if err == io.EOF {
			break
		}
	}
	vAssert(bytes.Equal(out, data), "M4-reassembled-bytes")
}

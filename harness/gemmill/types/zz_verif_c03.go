package types

// C03 — no equivocation across restarts. One inductive step of the real signer from an
// arbitrary (memory, disk, released-ledger) state that satisfies the invariant.

import (
	"bytes"
	"fmt"
	"io/ioutil"
	"os"
	"path/filepath"

	"github.com/dappledger/AnnChain/gemmill/go-crypto"
)

// vC03Signer is a deterministic, injective stand-in for the private key (Signer is a seam).
type vC03Signer struct{}

func (vC03Signer) Sign(msg []byte) crypto.Signature {
	var s crypto.SignatureEd25519
	s[0] = byte(len(msg))
	copy(s[1:], msg)
	return s
}

type vC03Rec struct {
	H, R  int64
	S     int8
	Bytes []byte // nil = no signature recorded
}

func vC03Less(a, b vC03Rec) bool {
	if a.H != b.H {
		return a.H < b.H
	}
	if a.R != b.R {
		return a.R < b.R
	}
	return a.S < b.S
}

func vC03SameHRS(a, b vC03Rec) bool { return a.H == b.H && a.R == b.R && a.S == b.S }

func vC03NondetRec(tag string) vC03Rec {
	r := vC03Rec{H: vNondetInt64(tag + ".h"), R: vNondetInt64(tag + ".r"), S: vNondetInt8(tag + ".s")}
	vAssume(r.H >= 0 && r.R >= 0 && r.S >= 0 && r.S <= 3)
	if n := vNondetLen(tag+".len", 0, 2); n > 0 {
		r.Bytes = vNondetBytes(tag+".bytes", n)
	}
	return r
}

func vC03Apply(pv *PrivValidator, r vC03Rec) {
	pv.LastHeight, pv.LastRound, pv.LastStep = r.H, r.R, r.S
	pv.LastSignBytes = r.Bytes
	pv.LastSignature = nil
	if r.Bytes != nil {
		pv.LastSignature = vC03Signer{}.Sign(r.Bytes)
	}
}

func vC03Read(pv *PrivValidator) vC03Rec {
	return vC03Rec{H: pv.LastHeight, R: pv.LastRound, S: pv.LastStep, Bytes: pv.LastSignBytes}
}

// vC03Path: a path whose durable write succeeds, or one whose write fails for real
// (directory does not exist). The engine stubs WriteFileAtomic as "error iff under /nonexistent-verif-dir".
func vC03Path(writable bool) string {
	if !writable {
		switch vNondetLen("failing-write", 0, 2) {
		case 0:
			return ""
		case 1:
			return "/nonexistent-verif-dir/priv_validator.json"
		}
		// the write fails in its FIRST stage (refreshing the .bak copy of the old content): nothing new
		// is on disk either. Natively: an existing file whose .bak path is a non-empty directory.
		if vSymbolic() {
			return "/bakfail-verif-dir/priv_validator.json"
		}
		dir := filepath.Join(os.TempDir(), fmt.Sprintf("verif-c03-bak-%d", os.Getpid()))
		os.MkdirAll(filepath.Join(dir, "priv_validator.json.bak", "x"), 0700)
		p := filepath.Join(dir, "priv_validator.json")
		ioutil.WriteFile(p, []byte("{}"), 0600)
		return p
	}
	if vSymbolic() {
		return "/writable-verif-dir/priv_validator.json"
	}
	return filepath.Join(os.TempDir(), fmt.Sprintf("verif-c03-%d.json", os.Getpid()))
}

// vC03Wrote: did the step really replace the signer file? (engine: the WriteFileAtomic stub was
// called; natively: the file, removed before the step, exists again)
func vC03Wrote(path string) bool {
	if vSymbolic() {
		return vStubCalls("go-common.WriteFileAtomic") > 0
	}
	_, err := os.Stat(path)
	return err == nil
}

// Inv: what every reachable signer state satisfies.
//  I1 memory and the durable record agree (a failed write rolls memory back; a reload copies disk)
//  I2 every released signature has HRS <= disk HRS ; equality => disk records exactly the released bytes
func vC03Inv(mem, disk vC03Rec, released bool, led vC03Rec) bool {
	if !vC03SameHRS(mem, disk) || !bytes.Equal(mem.Bytes, disk.Bytes) || (mem.Bytes == nil) != (disk.Bytes == nil) {
		return false
	}
	if released {
		if vC03Less(disk, led) {
			return false
		}
		if vC03SameHRS(disk, led) && (disk.Bytes == nil || !bytes.Equal(disk.Bytes, led.Bytes)) {
			return false
		}
	}
	return true
}

// One step: a signing request with arbitrary (h, r, step, bytes) whose durable write may fail,
// or a crash followed by reload from disk.
func VerifHarness_C03_inductive_step() {
	mem := vC03NondetRec("mem")
	disk := vC03NondetRec("disk")
	released := vNondetBool("released")
	led := vC03NondetRec("led")
	vAssume(!released || led.Bytes != nil)
	vAssume(vC03Inv(mem, disk, released, led))

	pv := &PrivValidator{Signer: vC03Signer{}}
	vC03Apply(pv, mem)

	if vNondetBool("crash") {
		// crash + reload: memory is rebuilt from the durable record
		vC03Apply(pv, disk)
		mem = disk
		vReach("reloaded")
	} else {
		writable := vNondetBool("writable")
		pv.filePath = vC03Path(writable)
		if !vSymbolic() && writable {
			os.Remove(pv.filePath)
		}
		req := vC03Rec{H: vNondetInt64("req.h"), R: vNondetInt64("req.r"), S: vNondetInt8("req.s")}
		vAssume(req.H >= 0 && req.R >= 0 && req.S >= 1 && req.S <= 3)
		req.Bytes = vNondetBytes("req.bytes", vNondetLen("req.len", 1, 2))
		sig, err := pv.signBytesHRS(req.H, req.R, req.S, req.Bytes) // real code
		after := vC03Read(pv)
		// durable image: the record on disk is replaced iff the code really performed the atomic
		// write and that write succeeded (the write carries the memory state at that moment, which
		// is the state after the step on every path that writes)
		if writable && vC03Wrote(pv.filePath) {
			disk = after
		}
		mem = after
		if err == nil {
			vReach("signature-released")
			vAssert(sig != nil, "signature-non-nil")
			if sig != nil {
				vAssert(sig.Equals(vC03Signer{}.Sign(req.Bytes)), "signature-is-for-requested-bytes")
			}
			if released {
				vAssert(!vC03Less(req, led), "no-signature-below-released-HRS")
				if vC03SameHRS(req, led) {
					vAssert(bytes.Equal(req.Bytes, led.Bytes), "same-HRS-only-identical-bytes")
				}
			}
			// the record that forbids contradicting this signature must be durable now
			vAssert(!vC03Less(disk, req), "released-only-after-durable-watermark")
			if vC03SameHRS(disk, req) {
				vAssert(bytes.Equal(disk.Bytes, req.Bytes), "durable-record-matches-released-bytes")
			}
			if !released || vC03Less(led, req) {
				led = req
			}
			released = true
		} else {
			vReach("request-refused")
			vAssert(sig == nil, "refused-returns-no-signature")
		}
	}
	vAssert(vC03Inv(mem, disk, released, led), "invariant-preserved")
}

// SignVote / SignProposal: step mapping and that the signature field is filled only on success.
func VerifHarness_C03_sign_vote_and_proposal() {
	mem := vC03NondetRec("mem")
	pv := &PrivValidator{Signer: vC03Signer{}}
	vC03Apply(pv, mem)
	pv.filePath = vC03Path(true)
	if vNondetBool("vote") {
		v := &Vote{Height: vNondetInt64("h"), Round: vNondetInt64("r"), Type: vNondetByte("type"),
			BlockID: BlockID{Hash: vNondetBytes("bh", 1)}}
		vAssume(v.Height >= 0 && v.Round >= 0)
		vAssume(v.Type == VoteTypePrevote || v.Type == VoteTypePrecommit)
		err := pv.SignVote("chain", v)
		want := int8(stepPrevote)
		if v.Type == VoteTypePrecommit {
			want = stepPrecommit
		}
		if err == nil {
			vReach("vote-signed")
			vAssert(v.Signature != nil, "vote-signature-set")
			vAssert(pv.LastHeight == v.Height && pv.LastRound == v.Round && pv.LastStep == want, "vote-watermark-is-vote-HRS")
			vAssert(!vC03Less(vC03Rec{H: v.Height, R: v.Round, S: want}, mem), "vote-not-below-watermark")
		} else {
			vAssert(v.Signature == nil, "refused-vote-unsigned")
			vAssert(vC03SameHRS(vC03Read(pv), mem), "refused-vote-leaves-watermark")
		}
	} else {
		p := &Proposal{Height: vNondetInt64("h"), Round: vNondetInt64("r"), POLRound: -1}
		vAssume(p.Height >= 0 && p.Round >= 0)
		err := pv.SignProposal("chain", p)
		if err == nil {
			vReach("proposal-signed")
			vAssert(p.Signature != nil, "proposal-signature-set")
			vAssert(pv.LastHeight == p.Height && pv.LastRound == p.Round && pv.LastStep == stepPropose, "proposal-watermark-is-proposal-HRS")
		} else {
			vAssert(p.Signature == nil, "refused-proposal-unsigned")
		}
	}
}

// vC03Overlap is the signing device seen from a second goroutine: while request 1 is inside Sign,
// a second, conflicting request arrives. It can only enter the validator if the validator's mutex is
// free at that moment (TryLock) — with the check, the signing and the recording of the watermark in
// one critical section it is not, and the second request simply waits until the first is recorded.
type vC03Overlap struct {
	pv       *PrivValidator
	other    *Vote
	ran      bool
	otherErr error
}

func (s *vC03Overlap) Sign(msg []byte) crypto.Signature {
	if !s.ran && s.pv.mtx.TryLock() {
		s.pv.mtx.Unlock()
		s.ran = true
		s.otherErr = s.pv.SignVote("chain", s.other)
	}
	return vC03Signer{}.Sign(msg)
}

// Two conflicting votes for the same height/round/step requested by overlapping callers: at most
// one signature is released (one schedule point is explored: the second request arrives while the
// first is inside the signing device).
func VerifHarness_C03_overlapping_requests() {
	mem := vC03NondetRec("mem")
	dev := &vC03Overlap{}
	pv := &PrivValidator{Signer: dev}
	dev.pv = pv
	vC03Apply(pv, mem)
	pv.filePath = vC03Path(true)
	h, r, typ := vNondetInt64("h"), vNondetInt64("r"), byte(VoteTypePrevote)
	vAssume(h >= 0 && r >= 0)
	if vNondetBool("precommit") {
		typ = VoteTypePrecommit
	}
	v1 := &Vote{Height: h, Round: r, Type: typ, BlockID: BlockID{Hash: []byte{0xA}}}
	dev.other = &Vote{Height: h, Round: r, Type: typ, BlockID: BlockID{Hash: []byte{0xB}}}
	err1 := pv.SignVote("chain", v1)
	vReach("first-request-returned")
	if err1 == nil {
		vReach("first-request-signed")
	}
	vAssert(!(err1 == nil && v1.Signature != nil && dev.ran && dev.otherErr == nil && dev.other.Signature != nil),
		"no-two-conflicting-signatures-when-requests-overlap")
}

package types

// C15 — vote accounting. Bounded histories of AddVote / SetPeerMaj23 on the real VoteSet with a
// ghost ledger of what was delivered; oracle checked after every operation.

import "github.com/dappledger/AnnChain/gemmill/go-crypto"

// fake signature: carries its own validity (a nondet bool chosen by the harness) and an id.
type vFakeSig struct {
	Valid bool
	ID    byte
}

func (s vFakeSig) Bytes() []byte     { return []byte{s.ID} }
func (s vFakeSig) IsZero() bool      { return false }
func (s vFakeSig) String() string    { return "fakesig" }
func (s vFakeSig) KeyString() string { return "fakesig" }
func (s vFakeSig) Equals(o crypto.Signature) bool {
	if os, ok := o.(vFakeSig); ok {
		return os.ID == s.ID && os.Valid == s.Valid
	}
	return false
}

// fake public key: a signature verifies iff it says so (unforgeability is the harness's choice).
type vFakeKey struct{ ID byte }

func (k vFakeKey) Address() []byte                       { return []byte{k.ID} }
func (k vFakeKey) Bytes() []byte                         { return []byte{k.ID} }
func (k vFakeKey) KeyString() string                     { return "fakekey" }
func (k vFakeKey) Equals(o crypto.PubKey) bool           { ok, is := o.(vFakeKey); return is && ok.ID == k.ID }
func (k vFakeKey) VerifyBytes(msg []byte, sig crypto.Signature) bool {
	if s, ok := sig.(vFakeSig); ok {
		return s.Valid
	}
	return false
}

func vC15ValSet(n int, maxPower int) (*ValidatorSet, []int64) {
	vals := make([]*Validator, n)
	pw := make([]int64, n)
	for i := range vals {
		pw[i] = int64(vNondetRange("power", 1, maxPower))
		vals[i] = &Validator{Address: []byte{byte(i + 1)}, PubKey: vFakeKey{byte(i + 1)}, VotingPower: pw[i]}
	}
	return &ValidatorSet{Validators: vals}, pw
}

// three block ids: 0 = nil block (zero id), 1 = A, 2 = B
func vC15Block(k int) BlockID {
	switch k {
	case 1:
		return BlockID{Hash: []byte{0xA}, PartsHeader: PartSetHeader{Total: 1, Hash: []byte{0xA}}}
	case 2:
		return BlockID{Hash: []byte{0xB}, PartsHeader: PartSetHeader{Total: 1, Hash: []byte{0xB}}}
	}
	return BlockID{}
}

func vC15BlockIndex(b BlockID) int {
	for k := 0; k < 3; k++ {
		if b.Equals(vC15Block(k)) {
			return k
		}
	}
	return -1
}

type vC15Digest struct {
	sum   int64
	maj   int // -1 none, else block index
	votes [4]*Vote
	bits  uint64
	nblk  int
}

func vC15Snap(vs *VoteSet) vC15Digest {
	d := vC15Digest{sum: vs.sum, maj: -1, nblk: len(vs.votesByBlock)}
	if vs.maj23 != nil {
		d.maj = vC15BlockIndex(*vs.maj23)
	}
	for i := range vs.votes {
		d.votes[i] = vs.votes[i]
	}
	if vs.votesBitArray != nil {
		d.bits = vs.votesBitArray.Elems[0]
	}
	return d
}

func VerifHarness_C15_history() {
	n := vParam("N", 3)
	k := vParam("K", 3)
	nb := vParam("B", 2) // number of block ids in play: nil, A (, B)
	precommit := vNondetBool("precommit")
	typ := byte(VoteTypePrevote)
	if precommit {
		typ = VoteTypePrecommit
	}
	valSet, pw := vC15ValSet(n, vParam("P", 1000))
	total := int64(0)
	for _, p := range pw {
		total += p
	}
	const H, R = int64(5), int64(1)
	vs := NewVoteSet("chain", H, R, typ, valSet)
	// ghost: delivered[i][b] a valid well-formed vote of validator i for block b was handed to AddVote
	var delivered [4][3]bool
	sigID := byte(0)
	for step := 0; step < k; step++ {
		before := vC15Snap(vs)
		last := step == k-1
		if vNondetBool("op.peermaj") {
			vs.SetPeerMaj23("peer", vC15Block(vNondetLen("op.block", 0, nb-1)))
			after := vC15Snap(vs)
			vAssert(after.sum == before.sum && after.maj == before.maj && after.votes == before.votes, "peer-claim-changes-no-tally")
			continue
		}
		i := vNondetLen("op.val", 0, n-1)
		b := vNondetLen("op.block", 0, nb-1)
		// malformed votes never change the state (asserted), so they are only explored as the last operation
		defect := 0
		if last {
			defect = vNondetLen("op.defect", 0, 5)
		}
		sigID++
		v := &Vote{ValidatorIndex: i, ValidatorAddress: []byte{byte(i + 1)}, Height: H, Round: R, Type: typ,
			BlockID: vC15Block(b), Signature: vFakeSig{Valid: defect != 5, ID: sigID}}
		switch defect {
		case 1:
			v.ValidatorAddress = []byte{byte(i + 2)}
		case 2:
			v.Height = H + 1
		case 3:
			v.Round = R + 1
		case 4:
			v.Type = typ ^ 3
		}
		hadVote := delivered[i][0] || delivered[i][1] || delivered[i][2]
		dup := delivered[i][b]
		added, err := vs.AddVote(v)
		after := vC15Snap(vs)
		if defect != 0 {
			vAssert(!added && err != nil, "malformed-vote-rejected")
			if defect == 5 {
				// a vote nobody can attribute to the validator is not evidence that the validator double-signed
				_, isConflict := err.(*ErrVoteConflictingVotes)
				vAssert(!isConflict, "badly-signed-vote-is-not-reported-as-a-conflicting-vote")
			}
			vAssert(after == before, "rejected-vote-leaves-state")
		} else {
			if !dup {
				delivered[i][b] = true
			}
			if !hadVote {
				vReach("first-vote-counted")
				vAssert(added && err == nil, "first-valid-vote-accepted")
				vAssert(after.sum == before.sum+pw[i], "first-vote-adds-power-once")
			} else {
				vAssert(after.sum == before.sum, "later-votes-of-same-validator-add-no-power")
				if !dup {
					_, isConflict := err.(*ErrVoteConflictingVotes)
					vAssert(isConflict, "conflicting-vote-reported")
				}
			}
			if !added {
				vAssert(after.maj == before.maj && after.sum == before.sum, "not-added-no-tally-change")
			}
		}
		// majority: never reassigned, and sound
		if before.maj >= 0 {
			vAssert(after.maj == before.maj, "maj23-never-reassigned")
		}
		if after.maj >= 0 {
			vReach("majority-reported")
			tally := int64(0)
			for j := 0; j < n; j++ {
				if delivered[j][after.maj] {
					tally += pw[j]
				}
			}
			vAssert(tally*3 > total*2, "maj23-sound")
		}
		// completeness for non-equivocating validators
		for bb := 0; bb < nb; bb++ {
			clean := int64(0)
			for j := 0; j < n; j++ {
				only := delivered[j][bb]
				for cc := 0; cc < 3; cc++ {
					if cc != bb && delivered[j][cc] {
						only = false
					}
				}
				if only {
					clean += pw[j]
				}
			}
			vAssert(vImplies(clean*3 > total*2, after.maj >= 0), "maj23-complete-for-non-equivocating-votes")
		}
		// any-2/3 and all
		seen := int64(0)
		for j := 0; j < n; j++ {
			if delivered[j][0] || delivered[j][1] || delivered[j][2] {
				seen += pw[j]
			}
		}
		vAssert(after.sum == seen, "sum-is-power-of-distinct-voters")
		vAssert(vs.HasTwoThirdsAny() == (seen*3 > total*2), "two-thirds-any-exact")
		vAssert(vs.HasAll() == (seen == total), "has-all-exact")
		bid, ok := vs.TwoThirdsMajority()
		vAssert(ok == (after.maj >= 0) && (!ok || vC15BlockIndex(bid) == after.maj), "two-thirds-majority-getter")
		// a commit built from a precommit majority verifies
		if precommit && after.maj >= 0 {
			c := vs.MakeCommit()
			vAssert(valSet.VerifyCommit("chain", *vs.maj23, H, c) == nil, "makecommit-verifies")
			vReach("commit-verified")
		}
	}
}

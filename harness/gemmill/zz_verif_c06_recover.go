package gemmill

// C06 — startup reconciliation. The durable picture left by a crash at each point of the real
// commit path of block 2 (SaveBlock | ExecBlock+SaveIntermediate | application commit | State.Save)
// is produced by running those real functions up to the cut; then the real RecoverFromCrash runs
// on what a restarted node loads. After recovery store, state and application must agree, and the
// state must be what the uncrashed run would have produced.

import (
	"bytes"
	"time"

	"github.com/dappledger/AnnChain/gemmill/blockchain"
	"github.com/dappledger/AnnChain/gemmill/go-crypto"
	"github.com/dappledger/AnnChain/gemmill/modules/go-events"
	dbm "github.com/dappledger/AnnChain/gemmill/modules/go-db"
	"github.com/dappledger/AnnChain/gemmill/state"
	"github.com/dappledger/AnnChain/gemmill/types"
)

type vRecDB struct {
	keys, vals [][]byte
}

func (d *vRecDB) Get(k []byte) []byte {
	for i := range d.keys {
		if bytes.Equal(d.keys[i], k) {
			return d.vals[i]
		}
	}
	return nil
}
func (d *vRecDB) Set(k, v []byte) {
	if k == nil {
		return
	}
	for i := range d.keys {
		if bytes.Equal(d.keys[i], k) {
			d.vals[i] = v
			return
		}
	}
	d.keys, d.vals = append(d.keys, append([]byte{}, k...)), append(d.vals, v)
}
func (d *vRecDB) SetSync(k, v []byte)    { d.Set(k, v) }
func (d *vRecDB) Delete(k []byte) {
	for i := range d.keys {
		if bytes.Equal(d.keys[i], k) {
			d.keys = append(d.keys[:i:i], d.keys[i+1:]...)
			d.vals = append(d.vals[:i:i], d.vals[i+1:]...)
			return
		}
	}
}
func (d *vRecDB) DeleteSync(k []byte) { d.Delete(k) }
func (d *vRecDB) Close()              {}
func (d *vRecDB) NewBatch() dbm.Batch { return &vRecBatch{db: d} }
func (d *vRecDB) Print()                 {}
func (d *vRecDB) Iterator() dbm.Iterator { return nil }

type vRecBatch struct {
	db   *vRecDB
	k, v [][]byte
	del  []bool
}

func (b *vRecBatch) Set(k, v []byte) {
	b.k, b.v, b.del = append(b.k, append([]byte{}, k...)), append(b.v, v), append(b.del, false)
}
func (b *vRecBatch) Delete(k []byte) {
	b.k, b.v, b.del = append(b.k, append([]byte{}, k...)), append(b.v, nil), append(b.del, true)
}
func (b *vRecBatch) Write() {
	for i := range b.k {
		if b.del[i] {
			b.db.Delete(b.k[i])
		} else {
			b.db.Set(b.k[i], b.v[i])
		}
	}
	b.k, b.v, b.del = nil, nil, nil
}

// the application: durable (height, app hash); the commit hook answers with the hashes after the block
type vRecEvsw struct {
	types.EventSwitch
	appHeight          int64
	appHash            []byte
	hashAfter, rcptAfter []byte
	executed           int
}

func (e *vRecEvsw) FireEvent(event string, data events.EventData) {
	switch d := data.(type) {
	case types.EventDataHookNewRound:
		d.ResCh <- types.NewRoundResult{}
	case types.EventDataHookExecute:
		e.executed++
		d.ResCh <- types.ExecuteResult{}
	case types.EventDataHookCommit:
		e.appHeight, e.appHash = d.Height, e.hashAfter
		d.ResCh <- types.CommitResult{AppHash: e.hashAfter, ReceiptsHash: e.rcptAfter}
	}
}

type vRecExec struct{}

func (vRecExec) BeginBlock(*types.Block, events.Fireable, *types.PartSetHeader) error { return nil }
func (vRecExec) ExecBlock(*types.Block, events.Fireable, *types.ExecuteResult) error  { return nil }
func (vRecExec) EndBlock(*types.Block, events.Fireable, *types.PartSetHeader, []*types.ValidatorAttr, *types.ValidatorSet) error {
	return nil
}

type vRecVerifier struct{}

func (vRecVerifier) ValidateBlock(*types.Block) error { return nil }

// under the engine reflective (de)serialisation of State is a seam: State.Bytes() yields a ticket
// naming a snapshot of the object, loading a key yields the snapshot its stored ticket names. Every
// save the code under test performs — wherever it is — is therefore seen by a later load.
var vRecObjs []*state.State

func vRecStateBytes(s *state.State) []byte {
	vRecObjs = append(vRecObjs, s.Copy())
	return []byte{0x53, byte(len(vRecObjs))}
}

func vRecLoadState(db dbm.DB, key []byte) *state.State {
	b := db.Get(key)
	if len(b) != 2 || b[0] != 0x53 || int(b[1]) < 1 || int(b[1]) > len(vRecObjs) {
		return nil
	}
	return vRecObjs[int(b[1])-1].Copy()
}

var vRecBlocks = map[int64]*types.Block{}
var vRecMetas = map[int64]*types.BlockMeta{}

func vRecLoadBlock(bs *blockchain.BlockStore, h int64) *types.Block       { return vRecBlocks[h] }
func vRecLoadBlockMeta(bs *blockchain.BlockStore, h int64) *types.BlockMeta { return vRecMetas[h] }

func vRecValSet() *types.ValidatorSet {
	return &types.ValidatorSet{Validators: []*types.Validator{{Address: []byte{1}, PubKey: crypto.PubKeyEd25519{1}, VotingPower: 1}}}
}

func VerifHarness_C06_recover_decision() {
	cls := vNondetLen("cut-class", 0, 4)
	sameHash := vNondetBool("app-hash-unchanged-by-block-2")
	A1, R1 := []byte{0xA1}, []byte{0xB1}
	A2, R2 := []byte{0xA2}, []byte{0xB2}
	if sameHash {
		A2 = A1
	}
	stateDB, blockDB := &vRecDB{}, &vRecDB{}
	ev := &vRecEvsw{appHeight: 1, appHash: A1, hashAfter: A2, rcptAfter: R2}
	var evsw types.EventSwitch = ev

	// ---- the node before the crash: block 1 fully committed ----
	bs := blockchain.NewBlockStore(blockDB, &vRecDB{})
	mkBlock := func(h int64, app, rc []byte, last types.BlockID) (*types.Block, *types.PartSet) {
		b := &types.Block{Header: &types.Header{ChainID: "c", Height: h, Time: time.Unix(1600000000+h, 0), AppHash: app, ReceiptsHash: rc, LastBlockID: last, ValidatorsHash: []byte{1}},
			Data: &types.Data{}, LastCommit: &types.Commit{}}
		b.FillHeader() // as MakeBlock does: data / last-commit hashes are in the header BEFORE the block is serialised
		return b, b.MakePartSet(4096)
	}
	b1, p1 := mkBlock(1, []byte{0xA0}, []byte{0xB0}, types.BlockID{})
	bs.SaveBlock(b1, p1, &types.Commit{})
	id1 := types.BlockID{Hash: b1.Hash(), PartsHeader: p1.Header()}
	vRecBlocks[1], vRecMetas[1] = b1, types.NewBlockMeta(b1, p1)
	s1 := &state.State{ChainID: "c", LastBlockHeight: 1, LastBlockID: id1, Validators: vRecValSet(), LastValidators: vRecValSet(), AppHash: A1, ReceiptsHash: R1}
	s1 = s1.Copy()
	vRecInit(s1, stateDB)
	s1.Save()

	// ---- the commit path of block 2, cut after class `cls` ----
	b2, p2 := mkBlock(2, A1, R1, id1)
	vRecBlocks[2], vRecMetas[2] = b2, types.NewBlockMeta(b2, p2)
	id2 := types.BlockID{Hash: b2.Hash(), PartsHeader: p2.Header()}
	if cls >= 1 {
		bs.SaveBlock(b2, p2, &types.Commit{BlockID: id2})
	}
	stCopy := s1.Copy()
	if cls >= 2 {
		err := stCopy.ExecBlock(evsw, b2, p2.Header(), 0) // real: ends with SaveIntermediate
		vAssert(err == nil, "exec-block-ok")
	}
	if cls >= 3 {
		err := stCopy.CommitStateUpdateMempool(evsw, b2, MockMempool{}, 0) // the application commits
		vAssert(err == nil, "commit-ok")
	}
	if cls >= 4 {
		stCopy.Save()
	}
	executedBefore := ev.executed

	// ---- restart: what a new process loads ----
	bs2 := blockchain.NewBlockStore(blockDB, &vRecDB{})
	loaded := state.LoadState(stateDB)
	vAssert(loaded != nil, "state-loads")
	loaded.SetBlockExecutable(vRecExec{})
	loaded.SetBlockVerifier(vRecVerifier{})
	e := &Angine{blockstore: bs2, stateMachine: loaded, eventSwitch: &evsw}
	err := e.RecoverFromCrash(ev.appHash, ev.appHeight) // real; a panic / exit is a finding
	vReach("recovered")
	vAssert(err == nil, "recovery-reports-no-error")
	fin := e.stateMachine
	storeH := bs2.Height()
	receiptsOK := true
	// store, state and application agree on the height
	vAssert(fin.LastBlockHeight == ev.appHeight, "state-and-app-at-same-height")
	vAssert(fin.LastBlockHeight == storeH, "state-and-store-at-same-height")
	vAssert(bytes.Equal(fin.AppHash, ev.appHash), "state-app-hash-is-the-apps")
	if fin.LastBlockHeight == 2 {
		vReach("recovered-at-2")
		// ... and the state is the one the uncrashed run produces
		receiptsOK = bytes.Equal(fin.ReceiptsHash, R2) // asserted last (an open, recorded finding ends the path)
		vAssert(fin.LastBlockID.Equals(id2), "recovered-last-block-id-as-uncrashed")
		// the application (restarted too) is asked to execute block 2 again exactly when it had not committed it
		again := ev.executed - executedBefore
		vAssert((again == 1) == (cls == 1 || cls == 2) && again <= 1, "block-2-re-executed-iff-app-had-not-committed-it")
	} else {
		vReach("recovered-at-1")
		vAssert(cls == 0, "only-a-crash-before-any-write-stays-at-1")
	}

	// ---- the node is killed again right after recovery (repeated crashes): whatever recovery left on
	// disk must itself be recoverable, to the same result ----
	bs3 := blockchain.NewBlockStore(blockDB, &vRecDB{})
	again := state.LoadState(stateDB)
	vAssert(again != nil, "state-loads-on-second-restart")
	again.SetBlockExecutable(vRecExec{})
	again.SetBlockVerifier(vRecVerifier{})
	e2 := &Angine{blockstore: bs3, stateMachine: again, eventSwitch: &evsw}
	err2 := e2.RecoverFromCrash(ev.appHash, ev.appHeight) // a panic / exit is a finding
	vReach("recovered-twice")
	vAssert(err2 == nil, "second-recovery-reports-no-error")
	fin2 := e2.stateMachine
	vAssert(fin2.LastBlockHeight == ev.appHeight && fin2.LastBlockHeight == bs3.Height(), "second-recovery-heights-agree")
	vAssert(bytes.Equal(fin2.AppHash, ev.appHash), "second-recovery-state-app-hash-is-the-apps")
	vAssert(fin2.LastBlockHeight == fin.LastBlockHeight && fin2.LastBlockID.Equals(fin.LastBlockID), "second-recovery-same-result-as-first")
	vAssert(receiptsOK, "recovered-receipts-hash-as-uncrashed")
}


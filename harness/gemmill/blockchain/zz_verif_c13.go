package blockchain

// C13 — fast sync applies a block only when the NEXT block's LastCommit justifies it with +2/3 of
// the validator set in force. One real SYNC iteration of BlockchainReactor.poolRoutine over a pool
// holding two fetched blocks; the verifier closure is the one angine installs
// (stateM.Validators.VerifyCommit through the live state pointer), the executer is a logging fake.

import (
	"time"

	"github.com/dappledger/AnnChain/gemmill/go-crypto"
	"github.com/dappledger/AnnChain/gemmill/p2p"
	"github.com/dappledger/AnnChain/gemmill/types"
	"github.com/spf13/viper"
)

type vSig13 struct {
	Valid bool
	ID    byte
}

func (s vSig13) Bytes() []byte     { return []byte{s.ID} }
func (s vSig13) IsZero() bool      { return false }
func (s vSig13) String() string    { return "sig" }
func (s vSig13) KeyString() string { return "sig" }
func (s vSig13) Equals(o crypto.Signature) bool {
	os, ok := o.(vSig13)
	return ok && os == s
}

type vKey13 struct{ ID byte }

func (k vKey13) Address() []byte             { return []byte{k.ID} }
func (k vKey13) Bytes() []byte               { return []byte{k.ID} }
func (k vKey13) KeyString() string           { return "key" }
func (k vKey13) Equals(o crypto.PubKey) bool { ok, is := o.(vKey13); return is && ok.ID == k.ID }
func (k vKey13) VerifyBytes(msg []byte, sig crypto.Signature) bool {
	s, ok := sig.(vSig13)
	return ok && s.Valid && s.ID == k.ID
}

type vNop13 struct{ p2p.BaseReactor }

const vChain13 = "verif-chain"

func vVals13(n int, base byte) *types.ValidatorSet {
	vals := make([]*types.Validator, n)
	for i := range vals {
		vals[i] = &types.Validator{Address: []byte{base + byte(i)}, PubKey: vKey13{base + byte(i)}, VotingPower: 1}
	}
	return &types.ValidatorSet{Validators: vals}
}

func vBlock13(height int64, tag byte, lc *types.Commit) *types.Block {
	return &types.Block{
		Header:     &types.Header{ChainID: vChain13, Height: height, AppHash: []byte{tag}, ValidatorsHash: []byte{1}},
		Data:       &types.Data{},
		LastCommit: lc,
	}
}

func VerifHarness_C13_sync_step() {
	n := vParam("N", 3)
	const H = int64(7)
	type live struct {
		chainID    string
		validators *types.ValidatorSet
	}
	state := &live{chainID: vChain13, validators: vVals13(n, 1)}
	setInForce := state.validators
	var executed []*types.Block
	var executedWith []*types.Commit

	conf := viper.New()
	if vSymbolic() {
		vSetStub("Viper).GetInt", 4096)
	} else {
		conf.Set("block_part_size", 4096)
	}
	requestsCh, timeoutsCh := make(chan BlockRequest, 4), make(chan string, 4)
	bcR := &BlockchainReactor{config: conf, requestsCh: requestsCh, timeoutsCh: timeoutsCh, fastSync: true,
		pool: NewBlockPool(H, requestsCh, timeoutsCh)}
	bcR.BaseReactor = *p2p.NewBaseReactor("BlockchainReactor", &vNop13{})
	bcR.BaseReactor.Start()
	// exactly what angine installs for pbft: verify against the validator set the live state holds NOW
	// while the commit is being verified the serving peer may be dropped and the request refilled by
	// another peer with a DIFFERENT block for the same height: what gets executed must still be the
	// block that was verified
	refill := vNondetBool("request-refilled-during-verification")
	forged := vBlock13(H, 0xF, &types.Commit{})
	bcR.SetBlockVerifier(func(bID types.BlockID, h int64, lc *types.Commit) error {
		err := state.validators.VerifyCommit(state.chainID, bID, h, lc)
		if refill {
			if r := bcR.pool.requesters[H]; r != nil {
				r.block = forged
			}
		}
		return err
	})
	bcR.SetBlockExecuter(func(blk *types.Block, pst *types.PartSet, c *types.Commit) error {
		executed = append(executed, blk)
		executedWith = append(executedWith, c)
		return nil
	})

	// the block the chain committed at H (what the +2/3 precommits are for) ...
	genuine := vBlock13(H, 0xA, &types.Commit{})
	genuine.Data.Txs = types.Txs{types.Tx{0x01}}
	firstID := types.BlockID{Hash: genuine.Hash(), PartsHeader: genuine.MakePartSet(4096).Header()} // Hash() fills in DataHash
	// ... and the block the serving peer delivers for H: the genuine one, or a tampered copy
	first := genuine
	tamper := vNondetLen("tamper", 0, 2)
	switch tamper {
	case 1: // other transactions under the genuine header (the header hash does not change)
		hdr := *genuine.Header
		first = &types.Block{Header: &hdr, Data: &types.Data{Txs: types.Txs{types.Tx{0x02}}}, LastCommit: genuine.LastCommit}
	case 2: // another application hash in the header
		hdr := *genuine.Header
		hdr.AppHash = []byte{0xAB}
		first = &types.Block{Header: &hdr, Data: genuine.Data, LastCommit: genuine.LastCommit}
	}
	otherID := types.BlockID{Hash: []byte{0x66}, PartsHeader: types.PartSetHeader{Total: 1, Hash: []byte{0x66}}}
	// the commit the serving peer put into block H+1: arbitrary
	var lc *types.Commit
	good := 0
	if !vNondetBool("lc.nil") {
		lc = &types.Commit{BlockID: firstID}
		np := vNondetLen("lc.n", 0, n+1)
		lc.Precommits = make([]*types.Vote, np)
		for i := 0; i < np; i++ {
			mk := func(signer int, height, round int64, typ byte, bid types.BlockID, valid bool) *types.Vote {
				return &types.Vote{ValidatorIndex: signer, ValidatorAddress: []byte{byte(1 + signer)}, Height: height, Round: round, Type: typ,
					BlockID: bid, Signature: vSig13{Valid: valid, ID: byte(1 + signer)}}
			}
			switch vNondetLen("pc.kind", 0, 7) {
			case 0:
			case 1:
				lc.Precommits[i] = mk(i, H, 0, types.VoteTypePrecommit, firstID, true)
				if i < n {
					good++
				}
			case 2:
				lc.Precommits[i] = mk(i, H, 0, types.VoteTypePrecommit, firstID, false)
			case 3:
				lc.Precommits[i] = mk(i, H-1, 0, types.VoteTypePrecommit, firstID, true)
			case 4:
				lc.Precommits[i] = mk(i, H, 0, types.VoteTypePrevote, firstID, true)
			case 5:
				lc.Precommits[i] = mk(i, H, 0, types.VoteTypePrecommit, otherID, true) // signed, but for another block
			case 6:
				lc.Precommits[i] = mk(i, H, 1, types.VoteTypePrecommit, firstID, true)
				if i < n {
					good++
				}
			default:
				lc.Precommits[i] = mk(0, H, 0, types.VoteTypePrecommit, firstID, true) // validator 0's vote copied into this slot
				if i == 0 {
					good++
				}
			}
		}
	}
	second := vBlock13(H+1, 0xB, lc)
	second.Header.LastBlockID = firstID // an honest successor names the genuine block

	pool := bcR.pool
	for i, b := range []*types.Block{first, second} {
		r := newBPRequester(pool, H+int64(i))
		r.block, r.peerID = b, "peer-1"
		pool.requesters[H+int64(i)] = r
	}
	pool.peers["peer-1"] = newBPPeer(pool, "peer-1", H+5)

	// one pass of the sync loop
	if vSymbolic() {
		bcR.Stop()        // Quit is closed: after the sync tick the routine leaves
		bcR.poolRoutine() // the engine delivers exactly one trySync tick
	} else {
		go bcR.poolRoutine()
		// a sync pass ends with the block executed or the serving peer dropped: wait for either
		// (not a fixed sleep: the machine may be loaded), then let the routine finish its pass
		for i := 0; i < 2000; i++ {
			pool.mtx.Lock()
			done := len(pool.peers) == 0 || pool.height != H
			pool.mtx.Unlock()
			if done {
				break
			}
			time.Sleep(5 * time.Millisecond)
		}
		time.Sleep(150 * time.Millisecond)
		bcR.Stop()
		time.Sleep(60 * time.Millisecond)
	}

	if vSymbolic() {
		// the engine may also pick the Quit case first: only paths on which the sync pass ran are of interest
		vAssume(len(executed) > 0 || len(pool.peers) == 0)
	}
	if len(executed) > 0 {
		vReach("block-applied")
		vAssert(len(executed) == 1 && executed[0] == first && executedWith[0] == lc, "applied-exactly-the-first-block-with-its-commit")
		vAssert(lc != nil && len(lc.Precommits) == n, "applied-only-with-a-full-size-commit")
		vAssert(good*3 > n*2, "applied-only-with-two-thirds-of-the-set-in-force")
		vAssert(tamper == 0, "applied-block-is-the-one-the-commit-is-for")
		vAssert(pool.height == H+1, "pool-advances-by-one")
		_, still := pool.requesters[H]
		vAssert(!still, "applied-block-popped")
	} else {
		vReach("block-not-applied")
		vAssert(pool.height == H, "pool-does-not-advance-without-application")
		if len(pool.peers) == 0 {
			vReach("serving-peer-dropped")
		}
		// a fully justified block is applied (no false rejection)
		vAssert(!(tamper == 0 && lc != nil && len(lc.Precommits) == n && good == n && vC13SingleRound(lc)), "justified-block-is-applied")
	}
	_ = setInForce
}

func vC13SingleRound(c *types.Commit) bool {
	r := int64(-1)
	for _, p := range c.Precommits {
		if p == nil {
			continue
		}
		if r >= 0 && p.Round != r {
			return false
		}
		r = p.Round
	}
	return true
}

package blockchain

// C06 — crash-atomic block store: SaveBlock is cut after every durable write it issues (the cut
// point is symbolic); the store reopened from the surviving writes is either still at h-1 or at h
// with everything a restarted node needs for h (meta, parts, last commit, seen commit).

import (
	"bytes"
	"encoding/json"

	"github.com/dappledger/AnnChain/gemmill/go-wire"
	dbm "github.com/dappledger/AnnChain/gemmill/modules/go-db"
	"github.com/dappledger/AnnChain/gemmill/types"
)

// vCutDB: an ordered key-value store that stops persisting after `limit` writes (the crash)
type vCutDB struct {
	keys   [][]byte
	vals   [][]byte
	writes int
	limit  int // -1: no crash
	log    []string
}

// one durable write unit (a single Set/SetSync/Delete, or a whole batch: LevelDB applies a batch
// atomically) either survives the crash completely or is lost completely
func (d *vCutDB) unit(n int) bool {
	if n == 0 {
		return false
	}
	if d.limit >= 0 && d.writes >= d.limit {
		return false // lost in the crash
	}
	d.writes++
	return true
}

func (d *vCutDB) apply(k, v []byte, del bool) {
	d.log = append(d.log, string(k))
	for i := range d.keys {
		if bytes.Equal(d.keys[i], k) {
			if del {
				d.keys = append(d.keys[:i:i], d.keys[i+1:]...)
				d.vals = append(d.vals[:i:i], d.vals[i+1:]...)
			} else {
				d.vals[i] = v
			}
			return
		}
	}
	if !del {
		d.keys, d.vals = append(d.keys, append([]byte{}, k...)), append(d.vals, v)
	}
}

func (d *vCutDB) put(k, v []byte) {
	if k == nil {
		return // SetSync(nil,nil) is the flush idiom
	}
	if d.unit(1) {
		d.apply(k, v, false)
	}
}
func (d *vCutDB) Get(k []byte) []byte {
	for i := range d.keys {
		if bytes.Equal(d.keys[i], k) {
			return d.vals[i]
		}
	}
	return nil
}
func (d *vCutDB) Set(k, v []byte)     { d.put(k, v) }
func (d *vCutDB) SetSync(k, v []byte) { d.put(k, v) }
func (d *vCutDB) Delete(k []byte) {
	if d.unit(1) {
		d.apply(k, nil, true)
	}
}
func (d *vCutDB) DeleteSync(k []byte)    { d.Delete(k) }
func (d *vCutDB) Close()                 {}
func (d *vCutDB) NewBatch() dbm.Batch    { return &vCutBatch{db: d} }
func (d *vCutDB) Print()                 {}
func (d *vCutDB) Iterator() dbm.Iterator { return nil }

func (d *vCutDB) clone() *vCutDB {
	c := &vCutDB{limit: -1, writes: d.writes}
	c.keys = append(c.keys, d.keys...)
	c.vals = append(c.vals, d.vals...)
	return c
}

type vCutOp struct {
	k, v []byte
	del  bool
}

type vCutBatch struct {
	db  *vCutDB
	ops []vCutOp
}

func (b *vCutBatch) Set(k, v []byte) { b.ops = append(b.ops, vCutOp{append([]byte{}, k...), v, false}) }
func (b *vCutBatch) Delete(k []byte) { b.ops = append(b.ops, vCutOp{append([]byte{}, k...), nil, true}) }
func (b *vCutBatch) Write() {
	if b.db.unit(len(b.ops)) {
		for _, o := range b.ops {
			b.db.apply(o.k, o.v, o.del)
		}
	}
	b.ops = nil
}

func vC06Block(height int64, tag byte) (*types.Block, *types.PartSet) {
	b := &types.Block{Header: &types.Header{ChainID: "c", Height: height, AppHash: []byte{tag}, ValidatorsHash: []byte{1}},
		Data: &types.Data{}, LastCommit: &types.Commit{}}
	return b, b.MakePartSet(vParam("PARTSIZE", 64))
}

func VerifHarness_C06_saveblock_crash_cuts() {
	db := &vCutDB{limit: -1}
	bs := NewBlockStore(db, &vCutDB{limit: -1})
	b1, p1 := vC06Block(1, 0xA)
	bs.SaveBlock(b1, p1, &types.Commit{})
	vAssert(bs.Height() == 1, "store-at-1")
	w1 := db.writes
	// block 2 is being saved when the process dies after `cut` of its durable write units. How many
	// units SaveBlock issues is measured on an uncrashed twin (a copy of the store), not assumed.
	b2, p2 := vC06Block(2, 0xB)
	twinDB := db.clone()
	twin := NewBlockStore(twinDB, &vCutDB{limit: -1})
	twin.SaveBlock(b2, p2, &types.Commit{BlockID: types.BlockID{Hash: []byte{0xB}}})
	total := twinDB.writes - w1
	vAssert(total >= 2 && twin.Height() == 2, "uncrashed-save-makes-block-2-visible")
	// counted from the end of the write sequence, so that a model replays natively even though the
	// real go-wire encoding yields a different number of parts than the engine's abstraction
	cut := total - vNondetLen("cut-from-end", 0, total)
	db.limit = w1 + cut
	bs.SaveBlock(b2, p2, &types.Commit{BlockID: types.BlockID{Hash: []byte{0xB}}})
	vAssert(db.writes-w1 == cut || cut == total, "cut-applied")
	// restart: a new store over what survived
	db.limit = -1
	re := NewBlockStore(db, &vCutDB{limit: -1})
	h := re.Height()
	vAssert(h == 1 || h == 2, "reopened-store-at-h-1-or-h")
	vAssert((h == 2) == (cut == total), "block-visible-iff-all-writes-survived")
	if h == 2 {
		vReach("block-2-visible")
	} else {
		vReach("block-2-not-visible")
	}
	// whatever height the store reports, everything a restarted node reads for it is there
	for hh := int64(1); hh <= h; hh++ {
		vAssert(re.db.Get(calcBlockMetaKey(hh)) != nil, "visible-block-has-meta")
		vAssert(re.db.Get(calcSeenCommitKey(hh)) != nil, "visible-block-has-seen-commit")
		vAssert(re.db.Get(calcBlockCommitKey(hh-1)) != nil, "visible-block-has-last-commit")
		parts := p1
		if hh == 2 {
			parts = p2
		}
		for i := 0; i < parts.Total(); i++ {
			vAssert(re.db.Get(calcBlockPartKey(hh, i)) != nil, "visible-block-has-every-part")
		}
	}
	// the descriptor is the LAST durable write of SaveBlock
	if cut == total {
		vAssert(db.log[len(db.log)-1] == string(blockStoreKey), "descriptor-written-last")
	}
	// a contiguity violation is refused
	_ = json.Marshal
	_ = wire.BinaryBytes
}

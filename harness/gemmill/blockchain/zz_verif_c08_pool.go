package blockchain

// C08 (fast-sync peers) — block responses cannot wedge the block pool. K block responses, each from
// the peer that was asked or from another one, for the requested height or another, arrive through
// BlockPool.AddBlock (what BlockchainReactor.Receive calls under the pool lock). The request
// routine takes exactly ONE "got block" notification per request (modelled by a one-slot channel;
// the real routine then only waits for redo/quit): a response that blocks on that channel while
// holding the pool mutex wedges every other peer, the sync loop and the timeouts.

import (
	"github.com/dappledger/AnnChain/gemmill/types"
)

func VerifHarness_C08_block_responses() {
	const H = int64(7)
	requestsCh, timeoutsCh := make(chan BlockRequest, 4), make(chan string, 4)
	pool := NewBlockPool(H, requestsCh, timeoutsCh)
	for i := int64(0); i < 2; i++ {
		r := newBPRequester(pool, H+i)
		r.peerID = "asked"
		r.gotBlockCh = make(chan struct{}, 1)
		pool.requesters[H+i] = r
		pool.numPending++
	}
	pool.peers["asked"] = newBPPeer(pool, "asked", H+5)
	pool.peers["asked"].incrPending() // two requests are out to this peer (real: sets up its monitor and timeout)
	pool.peers["asked"].incrPending()
	pool.peers["other"] = newBPPeer(pool, "other", H+5)
	k := vParam("K", 3)
	first := map[int64]*types.Block{}
	for i := 0; i < k; i++ {
		from := []string{"asked", "other", "stranger"}[vNondetLen("from", 0, 2)]
		height := H + int64(vNondetLen("dheight", -1, 2))
		b := vBlock13(height, byte(0x10+i), &types.Commit{})
		pool.AddBlock(from, b, 100) // a deadlock (blocked send under pool.mtx) or a panic is a finding
		if from == "asked" && first[height] == nil {
			first[height] = b
		}
	}
	vReach("responses-delivered")
	// the pool is still usable and holds, per request, the FIRST block the asked peer delivered
	h, pending, _ := pool.GetStatus()
	vAssert(h == H && pending >= 0, "pool-status-sane-after-responses")
	for i := int64(0); i < 2; i++ {
		vAssert(pool.requesters[H+i].getBlock() == first[H+i], "request-holds-the-first-block-of-the-asked-peer")
	}
}

package rlpdiff

// C18 — differential: in-tree eth/rlp raw splitting against the reference go-ethereum v1.8.27
// source (module cache) on the same symbolic buffer.

import (
	"bytes"

	intree "github.com/dappledger/AnnChain/eth/rlp"
	ref "github.com/ethereum/go-ethereum/rlp"
)

func VerifHarness_C18_K3_split_differential() {
	l := vNondetLen("len", 0, vParam("L", 8))
	b := vNondetBytes("b", l)
	b2 := append([]byte{}, b...)
	k1, c1, r1, e1 := intree.Split(b)
	k2, c2, r2, e2 := ref.Split(b2)
	vAssert((e1 == nil) == (e2 == nil), "K3d-split-same-verdict")
	if e1 == nil && e2 == nil {
		vReach("both-accept")
		vAssert(int(k1) == int(k2) && bytes.Equal(c1, c2) && bytes.Equal(r1, r2), "K3d-split-same-result")
	}
	n1, ce1 := intree.CountValues(b)
	n2, ce2 := ref.CountValues(b2)
	vAssert((ce1 == nil) == (ce2 == nil) && n1 == n2, "K3d-countvalues-agree")
	s1, sr1, se1 := intree.SplitString(b)
	s2, sr2, se2 := ref.SplitString(b2)
	vAssert((se1 == nil) == (se2 == nil) && bytes.Equal(s1, s2) && bytes.Equal(sr1, sr2), "K3d-splitstring-agree")
	l1, lr1, le1 := intree.SplitList(b)
	l2, lr2, le2 := ref.SplitList(b2)
	vAssert((le1 == nil) == (le2 == nil) && bytes.Equal(l1, l2) && bytes.Equal(lr1, lr2), "K3d-splitlist-agree")
	vAssert(intree.ListSize(uint64(l)) == ref.ListSize(uint64(l)), "K3d-listsize-agree")
}

// The streaming decoder's view of the next value (what DecodeBytes / Stream.Decode go through):
// kind, size and verdict of Stream.Kind() on a buffer that starts with 3 symbolic header bytes,
// in-tree against the reference — in particular the canonical-size rule (a payload of fewer than 56
// bytes must not use the long form) at its exact boundary.
func VerifHarness_C18_K3_stream_kind_differential() {
	buf := make([]byte, 3+300)
	copy(buf, vNondetBytes("hdr", 3))
	s1 := intree.NewStream(bytes.NewReader(buf), uint64(len(buf)))
	s2 := ref.NewStream(bytes.NewReader(append([]byte{}, buf...)), uint64(len(buf)))
	k1, n1, e1 := s1.Kind()
	k2, n2, e2 := s2.Kind()
	vReach("kinds-read")
	vAssert((e1 == nil) == (e2 == nil), "K3s-stream-same-verdict")
	if e1 == nil && e2 == nil {
		vReach("both-accept")
		vAssert(int(k1) == int(k2) && n1 == n2, "K3s-stream-same-kind-and-size")
	} else if e1 != nil && e2 != nil {
		vAssert(e1.Error() == e2.Error(), "K3s-stream-same-error")
	}
}

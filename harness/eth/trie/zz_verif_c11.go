package trie

// C11 — trie key encodings and trie structure (shape is a function of content).

import (
	"bytes"

	"github.com/dappledger/AnnChain/eth/common"
	"github.com/dappledger/AnnChain/eth/ethdb"
)

// S1: hex / compact / keybytes encodings round trip for every nibble string
func VerifHarness_C11_key_encodings() {
	n := vNondetLen("nibbles", 0, vParam("NIB", 6))
	hex := make([]byte, n)
	for i := range hex {
		hex[i] = vNondetByte("nib")
		vAssume(hex[i] < 16)
	}
	term := vNondetBool("terminator")
	full := append([]byte{}, hex...)
	if term {
		full = append(full, 16)
	}
	compact := hexToCompact(append([]byte{}, full...))
	vAssert(len(compact) == n/2+1, "S1-compact-length")
	back := compactToHex(compact)
	vAssert(bytes.Equal(back, full), "S1-compact-roundtrip")
	vAssert(hasTerm(back) == term, "S1-terminator-flag-preserved")
	if n%2 == 0 {
		kb := hexToKeybytes(append([]byte{}, full...))
		vAssert(len(kb) == n/2, "S1-keybytes-length")
		h2 := keybytesToHex(kb)
		vAssert(bytes.Equal(h2[:n], hex) && h2[n] == 16 && len(h2) == n+1, "S1-keybytes-roundtrip")
	}
	// common prefix
	m := vNondetLen("other", 0, 3)
	other := make([]byte, m)
	for i := range other {
		other[i] = vNondetByte("onib")
	}
	p := prefixLen(hex, other)
	vAssert(p <= n && p <= m, "S1-prefix-bounded")
	for i := 0; i < p; i++ {
		vAssert(hex[i] == other[i], "S1-prefix-is-common")
	}
	if p < n && p < m {
		vAssert(hex[p] != other[p], "S1-prefix-is-maximal")
	}
	vReach("encoded")
}

// structural equality of two tries (hash caches ignored)
func vSameNode(a, b node) bool {
	switch x := a.(type) {
	case nil:
		return b == nil
	case valueNode:
		y, ok := b.(valueNode)
		return ok && bytes.Equal(x, y)
	case hashNode:
		y, ok := b.(hashNode)
		return ok && bytes.Equal(x, y)
	case *shortNode:
		y, ok := b.(*shortNode)
		return ok && bytes.Equal(x.Key, y.Key) && vSameNode(x.Val, y.Val)
	case *fullNode:
		y, ok := b.(*fullNode)
		if !ok {
			return false
		}
		for i := range x.Children {
			if !vSameNode(x.Children[i], y.Children[i]) {
				return false
			}
		}
		return true
	}
	return false
}

func vNewTrie() *Trie {
	t, err := New(common.Hash{}, NewDatabase(ethdb.NewMemDatabase()))
	if err != nil {
		panic(err)
	}
	return t
}

// S3: the structure after inserting a set of keys does not depend on the order; Get returns what
// was put; deleting a freshly inserted key restores the previous structure.
func VerifHarness_C11_trie_structure() {
	k := vParam("K", 2)
	keys := make([][]byte, k+1)
	vals := make([][]byte, k+1)
	// keys are enumerated from a small alphabet that produces shared prefixes, branch nodes and
	// extension splits (forked, i.e. concrete on each path); values are symbolic
	alphabet := []byte{0x00, 0x01, 0x10, 0x11}
	for i := range keys {
		keys[i] = []byte{alphabet[vNondetLen("key.hi", 0, 3)], alphabet[vNondetLen("key.lo", 0, 3)]}
		vals[i] = []byte{vNondetByte("val") | 1} // non-empty value
	}
	// distinct keys
	for i := range keys {
		for j := 0; j < i; j++ {
			vAssume(!bytes.Equal(keys[i], keys[j]))
		}
	}
	a, b := vNewTrie(), vNewTrie()
	for i := 0; i < k; i++ {
		a.Update(keys[i], vals[i])
	}
	for i := k - 1; i >= 0; i-- {
		b.Update(keys[i], vals[i])
	}
	vReach("built")
	vAssert(vSameNode(a.root, b.root), "S3-structure-independent-of-insertion-order")
	for i := 0; i < k; i++ {
		vAssert(bytes.Equal(a.Get(keys[i]), vals[i]), "S3-get-returns-what-was-put")
	}
	vAssert(a.Get(keys[k]) == nil, "S3-absent-key-not-found")
	// insert then delete a fresh key: back to the same structure
	a.Update(keys[k], vals[k])
	vAssert(bytes.Equal(a.Get(keys[k]), vals[k]), "S3-get-after-insert")
	a.Delete(keys[k])
	vAssert(vSameNode(a.root, b.root), "S3-delete-restores-structure")
	// overwriting with the same value changes nothing; an empty value deletes
	a.Update(keys[0], vals[0])
	vAssert(vSameNode(a.root, b.root), "S3-idempotent-update")
}

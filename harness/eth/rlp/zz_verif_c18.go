package rlp

// C18 — RLP heads and raw splitting (non-reflective kernels).

import "bytes"

// K3a: the size written by puthead is read back by readKind/readSize for every 64-bit size;
// headsize/intsize agree with what was written.
func VerifHarness_C18_K3_head_roundtrip() {
	size := vNondetUint64("size")
	list := vNondetBool("list")
	var buf [9]byte
	var n int
	if list {
		n = puthead(buf[:], 0xC0, 0xF7, size)
	} else {
		n = puthead(buf[:], 0x80, 0xB7, size)
	}
	vAssert(n == headsize(size), "K3-headsize")
	if size >= 56 {
		vReach("long-form")
		vAssert(n == 1+intsize(size), "K3-intsize")
		s, err := readSize(buf[1:n], byte(n-1))
		vAssert(err == nil && s == size, "K3-readsize-inverts-puthead")
		if list {
			vAssert(buf[0] == 0xF7+byte(n-1), "K3-list-tag")
		} else {
			vAssert(buf[0] == 0xB7+byte(n-1), "K3-string-tag")
		}
	} else {
		vAssert(n == 1, "K3-short-form-one-byte")
	}
}

// K3b: concrete-length payloads around the 55/56 boundary: readKind(puthead ++ payload).
func VerifHarness_C18_K3_kind_roundtrip() {
	l := vNondetLen("paylen", 0, 4)
	if vNondetBool("big") {
		l += 54
	}
	list := vNondetBool("list")
	payload := vNondetBytes("payload", l)
	buf := make([]byte, 9+l)
	var n int
	if list {
		n = puthead(buf, 0xC0, 0xF7, uint64(l))
	} else {
		n = puthead(buf, 0x80, 0xB7, uint64(l))
	}
	copy(buf[n:], payload)
	k, ts, cs, err := readKind(buf[:n+l])
	if !list && l == 1 && payload[0] < 128 {
		vAssert(err == ErrCanonSize, "K3b-single-byte-must-be-encoded-as-itself")
		return
	}
	vReach("decoded")
	vAssert(err == nil && ts == uint64(n) && cs == uint64(l), "K3b-readkind-inverts-puthead")
	vAssert((k == List) == list, "K3b-kind")
}

// K3c: Split / SplitString / SplitList / CountValues on an arbitrary buffer: no panic,
// content ++ rest re-assemble the input, canonical-size rules are enforced.
func VerifHarness_C18_K3_split_robust() {
	l := vNondetLen("len", 0, vParam("L", 8))
	b := vNondetBytes("b", l)
	k, content, rest, err := Split(b)
	if err == nil {
		vReach("split-ok")
		hdr := l - len(content) - len(rest)
		vAssert(hdr >= 0 && hdr <= 9, "K3c-header-size")
		vAssert(bytes.Equal(content, b[hdr:hdr+len(content)]) && bytes.Equal(rest, b[hdr+len(content):]), "K3c-content-rest-reassemble")
		if k == Byte {
			vAssert(hdr == 0 && len(content) == 1 && b[0] < 0x80, "K3c-byte-kind")
		}
		if k == String && len(content) == 1 {
			vAssert(content[0] >= 0x80, "K3c-canonical-single-byte")
		}
		if hdr > 1 {
			vAssert(len(content) >= 56 && b[1] != 0, "K3c-canonical-long-form")
		}
	} else {
		vAssert(content == nil && len(rest) == l, "K3c-error-returns-input")
	}
	c2, r2, err2 := SplitString(b)
	vAssert((err2 == nil) == (err == nil && k != List), "K3c-splitstring-iff-string")
	if err2 == nil {
		vAssert(bytes.Equal(c2, content) && bytes.Equal(r2, rest), "K3c-splitstring-agrees")
	}
	c3, r3, err3 := SplitList(b)
	vAssert((err3 == nil) == (err == nil && k == List), "K3c-splitlist-iff-list")
	if err3 == nil {
		vAssert(bytes.Equal(c3, content) && bytes.Equal(r3, rest), "K3c-splitlist-agrees")
	}
	cnt, cerr := CountValues(b)
	if cerr == nil {
		vAssert(cnt >= 0 && cnt <= l, "K3c-count-bounded")
		if l > 0 {
			vAssert(err == nil && cnt >= 1, "K3c-count-consistent-with-split")
		}
	}
}

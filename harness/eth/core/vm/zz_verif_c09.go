package vm

// C09 — totality of the governance precompile: AdminOP.Run must not panic for any call data
// (it is reachable from any transaction that calls address 0xfe).

func VerifHarness_C09_adminop_run_total() {
	l := vNondetLen("len", 0, vParam("L", 70))
	input := make([]byte, l)
	// the length word (first 32 bytes): top byte, and the low 2 bytes are symbolic; sender bytes fixed
	for i := range input {
		input[i] = 0
	}
	if l > 0 {
		input[0] = vNondetByte("w.top")
	}
	if l >= 32 {
		input[24] = vNondetByte("w.b24")
		input[30] = vNondetByte("w.b30")
		input[31] = vNondetByte("w.b31")
	}
	var gotFrom, gotData []byte
	called := false
	op := &AdminOP{}
	op.SetCallback(func(app *AdminDBApp, data []byte) error {
		called = true
		gotFrom, gotData = app.Addr, data
		return nil
	})
	_, err := op.Run(input) // a panic is a finding
	if called {
		vReach("callback-invoked")
		vAssert(err == nil, "T1-callback-result-returned")
		vAssert(l >= 52, "T1-callback-needs-length-word-and-sender")
		vAssert(len(gotFrom) == 20, "T1-sender-is-20-bytes")
		vAssert(len(gotData) <= l-52, "T1-data-within-input")
	} else {
		vReach("rejected")
		vAssert(err != nil, "T1-malformed-input-is-an-error")
	}
}

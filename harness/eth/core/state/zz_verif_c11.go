package state

// C11 — state DB: revert to a snapshot restores exactly the state at that snapshot (journal),
// and values written, flushed and cleared read back correctly.

import (
	"bytes"
	"math/big"

	"github.com/dappledger/AnnChain/eth/common"
	"github.com/dappledger/AnnChain/eth/core/types"
	"github.com/dappledger/AnnChain/eth/ethdb"
	"github.com/dappledger/AnnChain/eth/rlp"
)

func vNewState() *StateDB {
	st, err := New(common.Hash{}, NewDatabase(ethdb.NewMemDatabase()))
	if err != nil {
		panic(err)
	}
	return st
}

func vAddr(i int) common.Address { var a common.Address; a[19] = byte(i + 1); return a }
func vKey(i int) common.Hash     { var h common.Hash; h[31] = byte(i + 1); return h }

type vObs struct {
	nonce            [2]uint64
	balance          [2]int64
	slot             [2][2]common.Hash
	code             [2]byte
	exist, suicided  [2]bool
	refund           uint64
	logs             int
}

func vObserveState(st *StateDB) vObs {
	var o vObs
	for a := 0; a < 2; a++ {
		ad := vAddr(a)
		o.nonce[a] = st.GetNonce(ad)
		o.balance[a] = st.GetBalance(ad).Int64()
		for k := 0; k < 2; k++ {
			o.slot[a][k] = st.GetState(ad, vKey(k))
		}
		if c := st.GetCode(ad); len(c) > 0 {
			o.code[a] = c[0]
		}
		o.exist[a], o.suicided[a] = st.Exist(ad), st.HasSuicided(ad)
	}
	o.refund = st.GetRefund()
	o.logs = len(st.Logs())
	return o
}

func vMutate(st *StateDB, tag string) {
	a := vNondetLen(tag+".acct", 0, 1)
	ad := vAddr(a)
	switch vNondetLen(tag+".kind", 0, 9) {
	case 0:
		st.SetNonce(ad, vNondetUint64(tag+".nonce"))
	case 1:
		st.AddBalance(ad, big.NewInt(int64(vNondetLen(tag+".amount", 0, 1)))) // 0 = "touch"
	case 2:
		st.SetBalance(ad, big.NewInt(5))
	case 3:
		var v common.Hash
		v[31] = vNondetByte(tag + ".value")
		st.SetState(ad, vKey(0), v)
	case 4:
		st.SetCode(ad, []byte{7})
	case 5:
		st.CreateAccount(ad)
	case 6:
		st.Suicide(ad)
	case 7:
		st.AddRefund(3)
	case 8:
		st.AddLog(&types.Log{Address: ad})
	case 9:
		st.AddPreimage(vKey(0), []byte{1})
	}
}

// S2: journal exactness with nested snapshots
func VerifHarness_C11_journal_revert() {
	st := vNewState()
	nPre := vNondetLen("pre", 0, vParam("PRE", 2))
	for i := 0; i < nPre; i++ {
		vMutate(st, "pre")
	}
	snapA := st.Snapshot()
	obsA := vObserveState(st)
	vMutate(st, "m1")
	snapB := st.Snapshot()
	obsB := vObserveState(st)
	vMutate(st, "m2")
	if vNondetBool("revert-inner-first") {
		st.RevertToSnapshot(snapB)
		vReach("reverted-inner")
		vAssert(vObserveState(st) == obsB, "S2-revert-restores-inner-snapshot")
	}
	st.RevertToSnapshot(snapA)
	vReach("reverted-outer")
	vAssert(vObserveState(st) == obsA, "S2-revert-restores-outer-snapshot")
}

// S4: a storage slot written, flushed (IntermediateRoot), cleared, flushed again reads back as
// cleared - live and "committed" views agree with the content
func VerifHarness_C11_storage_flush() {
	st := vNewState()
	ad := vAddr(0)
	st.SetNonce(ad, 1)
	var v1, v2 common.Hash
	v1[31] = vNondetByte("v1")
	v2[31] = vNondetByte("v2")
	st.SetState(ad, vKey(0), v1)
	if vNondetBool("flush1") {
		st.IntermediateRoot(false)
	}
	vAssert(st.GetState(ad, vKey(0)) == v1, "S4-read-own-write")
	st.SetState(ad, vKey(0), v2)
	st.IntermediateRoot(false)
	vReach("flushed")
	vAssert(st.GetState(ad, vKey(0)) == v2, "S4-read-after-flush")
	vAssert(st.GetCommittedState(ad, vKey(0)) == v2, "S4-committed-view-after-flush")
	// writing the old value again really writes it
	st.SetState(ad, vKey(0), v1)
	vAssert(st.GetState(ad, vKey(0)) == v1, "S4-rewrite-visible")
	st.IntermediateRoot(false)
	vAssert(st.GetState(ad, vKey(0)) == v1 && st.GetCommittedState(ad, vKey(0)) == v1, "S4-rewrite-survives-flush")
}

// S5: changes made BEFORE a snapshot survive a revert to it all the way into the account trie:
// after [mutations; snapshot; mutations of possibly the same accounts; revert; flush] the trie
// entry of every account is exactly the encoding of the live account (absent accounts have none).
func VerifHarness_C11_flush_after_revert() {
	st := vNewState()
	nPre := vNondetLen("pre", 1, vParam("PRE", 2))
	for i := 0; i < nPre; i++ {
		vMutate(st, "pre")
	}
	snap := st.Snapshot()
	vMutate(st, "m1")
	if vParam("TWO", 0) == 1 && vNondetBool("two-after") {
		vMutate(st, "m2")
	}
	st.RevertToSnapshot(snap)
	before := vObserveState(st)
	st.IntermediateRoot(false)
	vReach("flushed")
	// (the trie is inspected before anything else is read: reads fill caches inside the live objects)
	for a := 0; a < 2; a++ {
		ad := vAddr(a)
		obj := st.getStateObject(ad)
		enc, _ := st.trie.TryGet(ad[:])
		if obj == nil {
			vAssert(len(enc) == 0, "S5-absent-account-has-no-trie-entry")
		} else {
			vReach("account-in-trie")
			want, err := rlp.EncodeToBytes(obj)
			vAssert(err == nil && bytes.Equal(enc, want), "S5-trie-holds-the-live-account-after-revert-and-flush")
		}
	}
	after := vObserveState(st)
	vAssert(after.nonce == before.nonce && after.balance == before.balance && after.slot == before.slot && after.exist == before.exist,
		"S5-flush-does-not-change-what-is-read")
}

// S6: a copy of the state (what read-only contract queries execute on) is independent of the
// original in both directions, whatever the account's bookkeeping status at the time of the copy:
// changed in the current transaction (journal), flushed but not committed, or clean in the cache
// (as after Commit, or after merely having been read).
func VerifHarness_C11_copy_is_independent() {
	st := vNewState()
	ad := vAddr(0)
	var v1, v2 common.Hash
	v1[31], v2[31] = 0x11, 0x22
	st.SetNonce(ad, 1)
	st.AddBalance(ad, big.NewInt(5))
	st.SetState(ad, vKey(0), v1)
	status := vNondetLen("object-status", 0, 2)
	if status >= 1 {
		st.IntermediateRoot(false)
	}
	if status == 2 {
		if vSymbolic() {
			// Commit hashes and encodes trie nodes (reflection: outside the engine). Its effect on the
			// bookkeeping is reproduced instead: the object, written out, is clean in the cache; decoding
			// the stored account yields the account as stored (seam). Storage of the committed account
			// is only compared natively (the storage trie nodes exist only after a real Commit).
			delete(st.stateObjectsDirty, ad)
			enc, _ := st.trie.TryGet(ad[:])
			acct := st.stateObjects[ad].data
			vJSONBind(enc, &acct)
		} else if _, err := st.Commit(false); err != nil {
			panic(err)
		}
	}
	cp := st.Copy()
	from, to := cp, st // the copy is changed, the original observed ...
	if vNondetBool("original-changes") {
		from, to = st, cp // ... or the other way round
	}
	switch vNondetLen("mutation", 0, 2) {
	case 0:
		from.SetNonce(ad, 9)
	case 1:
		from.SetState(ad, vKey(0), v2)
	default:
		from.AddBalance(ad, big.NewInt(1))
	}
	vReach("copied-and-mutated")
	vAssert(to.GetNonce(ad) == 1, "S6-nonce-does-not-leak-through-a-copy")
	vAssert(to.GetBalance(ad).Int64() == 5, "S6-balance-does-not-leak-through-a-copy")
	if !(vSymbolic() && status == 2) {
		vAssert(to.GetState(ad, vKey(0)) == v1, "S6-storage-does-not-leak-through-a-copy")
	}
}

#!/bin/bash
# Apply one patch to a scratch worktree of /repo (HEAD), run the given checks against it, remove the worktree.
# /repo itself is never touched; evidence/ of /verif is not overwritten (VERIF_OUT scratch).
# Usage: [TIER=thorough] ./tools_try_patch.sh <patch.diff> <ID> [ID ...]   one line per check: exit code, violations, labels
cd "$(dirname "$0")"; V=$(pwd)
p=$(readlink -f "$1"); shift
tag=$(basename $(dirname "$p"))_$(basename "$p" .diff)_$$
wt=/tmp/vwt-$tag; out=/tmp/vout-$tag
git -C /repo worktree add --detach $wt HEAD >/dev/null 2>&1 || { echo "cannot create worktree"; exit 3; }
trap 'git -C /repo worktree remove --force $wt >/dev/null 2>&1; rm -rf $out' EXIT
if ! git -C $wt apply "$p" 2>/dev/null; then echo "PATCH DOES NOT APPLY: $p"; exit 3; fi
mkdir -p $V/out/try
for id in "$@"; do
  o=$(VERIF_REPO=$wt VERIF_OUT=$out timeout 3000 ./check $id ${TIER:-quick} 2>&1); rc=$?
  echo "$o" > $V/out/try/${tag%_*}_$id.log
  v=$(echo "$o" | grep -c '^VIOLATION')
  lab=$(echo "$o" | grep 'harness=' | sed -E 's/.*harness=([^ ]+) (assert|panic|bigalloc|deadlock|exit) label=([^ ]+).*/\1:\3/' | sort -u | head -4 | tr '\n' ' ')
  inc=$(echo "$o" | grep -E "INCONCLUSIVE" | head -3 | cut -c1-300 | tr '\n' ' ')
  echo "$id: exit=$rc violations=$v $lab $inc"
done

#!/bin/bash
# Apply one patch to /repo, run the given checks (quick tier), undo the patch. Never leaves /repo modified.
# Usage: ./tools_try_patch.sh <patch.diff> <ID> [ID ...]     prints one line per check: exit code, violations, labels
cd "$(dirname "$0")"; V=$(pwd)
p=$(readlink -f "$1"); shift
git -C /repo checkout -- . 2>/dev/null
if ! git -C /repo apply --check "$p" 2>/dev/null; then echo "PATCH DOES NOT APPLY: $p"; exit 3; fi
git -C /repo apply "$p"
trap 'git -C /repo checkout -- .' EXIT
for id in "$@"; do
  out=$(timeout 2400 ./check $id ${TIER:-quick} 2>&1); rc=$?
  mkdir -p out/try; echo "$out" > out/try/$(basename $(dirname "$p"))_$(basename "$p")_$id.log
  v=$(echo "$out" | grep -c '^VIOLATION')
  lab=$(echo "$out" | grep 'harness=' | sed -E 's/.*harness=([^ ]+) (assert|panic|bigalloc|deadlock|exit) label=([^ ]+).*/\1:\3/' | sort -u | head -4 | tr '\n' ' ')
  inc=$(echo "$out" | grep -E "INCONCLUSIVE" | head -3 | tr '\n' ' ')
  echo "$id: exit=$rc violations=$v $lab $inc"
done

#!/bin/bash
# Run every seeded change (seeded/<dir>/patch.diff, must be caught: exit 1 with a VIOLATION) and every benign
# control (seeded/<dir>/benign.diff, must pass: exit 0) against the owning property's quick check.
# Each run uses its own scratch worktree of /repo HEAD (tools_try_patch.sh); /repo itself is never touched.
# Usage: ./tools_seed_sweep.sh [dir ...]     (default: all of seeded/; PAR=3 runs in parallel)
cd "$(dirname "$0")"
export GOFLAGS=-mod=mod GOPROXY=off GOSUMDB=off GOTOOLCHAIN=local
one() {
  d=$1; f=$2; id=${d%%-*}
  r=$(./tools_try_patch.sh seeded/$d/$f $id 2>&1 | tail -1)
  case "$f" in
    patch.diff)  want="exit=1"; out=sweep.txt
                 # seeds the checks are known NOT to catch (meta.json "caught": false; reasons in DESIGN.md) are expected to pass
                 grep -q '"caught": false' seeded/$d/meta.json 2>/dev/null && want="exit=0";;
    benign.diff) want="exit=0"; out=sweep_benign.txt;;
  esac
  if echo "$r" | grep -q "$want"; then v=AS-EXPECTED; else v=UNEXPECTED; fi
  echo "$d $f: $v ($r)" | tee seeded/$d/$out
}
export -f one
for d in ${@:-$(ls seeded)}; do
  echo "$d patch.diff"
  [ -f seeded/$d/benign.diff ] && echo "$d benign.diff"
done | xargs -P ${PAR:-3} -L 1 bash -c 'one $0 $1'

#!/bin/bash
# Apply every seeded change to /repo in turn, run the owning property's quick check, undo the change.
# Usage: ./tools_seed_sweep.sh [ID ...]   (writes seeded/<id>/sweep.txt; never leaves /repo modified)
cd "$(dirname "$0")"; V=$(pwd)
ids=${@:-$(ls seeded)}
for id in $ids; do
  git -C /repo checkout -- . 2>/dev/null
  if ! git -C /repo apply --check $V/seeded/$id/patch.diff 2>/dev/null; then echo "$id: PATCH DOES NOT APPLY" | tee seeded/$id/sweep.txt; continue; fi
  git -C /repo apply $V/seeded/$id/patch.diff
  out=$(timeout 1500 ./check $id quick 2>&1); rc=$?
  git -C /repo checkout -- .
  v=$(echo "$out" | grep -c '^VIOLATION')
  lab=$(echo "$out" | grep 'harness=' | sed -E 's/.*harness=([^ ]+) (assert|panic|bigalloc|deadlock|exit) label=([^ ]+).*/\1:\3/' | sort -u | head -3 | tr '\n' ' ')
  echo "$id: exit=$rc violations=$v $lab" | tee seeded/$id/sweep.txt
done
git -C /repo status --short | head -3

#!/usr/bin/env python3
"""After a sweep: fill seeded/<dir>/meta.json "caught_by" from sweep.txt where it was not written by hand,
and print the table used in DESIGN.md section 10."""
import json, os, re
root = os.path.join(os.path.dirname(os.path.abspath(__file__)), "seeded")
rows, caught, total, benign_ok, benign = [], 0, 0, 0, 0
for d in sorted(os.listdir(root)):
    mf = os.path.join(root, d, "meta.json")
    m = json.load(open(mf))
    sw = os.path.join(root, d, "sweep.txt")
    line = open(sw).read().strip() if os.path.exists(sw) else ""
    total += 1
    got = "exit=1" in line and "violations=0" not in line
    if m.get("caught", True) and m.get("caught_by", "").startswith("(filled in"):
        labs = re.findall(r"(VerifHarness_\S+?):(\S+)", line)
        if got and labs:
            m["caught_by"] = "; ".join(sorted({"%s: %s" % (h.replace("VerifHarness_", ""), l) for h, l in labs}))
            json.dump(m, open(mf, "w"), indent=1)
    if got:
        caught += 1
    state = "caught" if got else ("expected miss" if not m.get("caught", True) else "NOT CAUGHT (unexpected)")
    rows.append("| %s | %s | %s |" % (d, state, m.get("caught_by", "").replace("|", "/")))
    bf = os.path.join(root, d, "sweep_benign.txt")
    if os.path.exists(os.path.join(root, d, "benign.diff")):
        benign += 1
        if os.path.exists(bf) and "exit=0" in open(bf).read():
            benign_ok += 1
print("breaking: %d of %d caught; benign controls: %d of %d pass" % (caught, total, benign_ok, benign))
print("\n".join(rows))

package main

// keccakF1600 on concrete state: the repo's sha3 uses an assembly permutation on amd64 (no Go
// body), so the engine supplies it. Symbolic state is refused (hashes of symbolic data are
// stubbed as uninterpreted functions at a higher level instead).

import "math/bits"

var keccakRC = [24]uint64{
	0x0000000000000001, 0x0000000000008082, 0x800000000000808A, 0x8000000080008000,
	0x000000000000808B, 0x0000000080000001, 0x8000000080008081, 0x8000000000008009,
	0x000000000000008A, 0x0000000000000088, 0x0000000080008009, 0x000000008000000A,
	0x000000008000808B, 0x800000000000008B, 0x8000000000008089, 0x8000000000008003,
	0x8000000000008002, 0x8000000000000080, 0x000000000000800A, 0x800000008000000A,
	0x8000000080008081, 0x8000000000008080, 0x0000000080000001, 0x8000000080008008,
}

var keccakRot = [25]uint{0, 1, 62, 28, 27, 36, 44, 6, 55, 20, 3, 10, 43, 25, 39, 41, 45, 15, 21, 8, 18, 2, 61, 56, 14}

func keccakF1600Concrete(a *[25]uint64) {
	for round := 0; round < 24; round++ {
		var c [5]uint64
		for x := 0; x < 5; x++ {
			c[x] = a[x] ^ a[x+5] ^ a[x+10] ^ a[x+15] ^ a[x+20]
		}
		for x := 0; x < 5; x++ {
			d := c[(x+4)%5] ^ bits.RotateLeft64(c[(x+1)%5], 1)
			for y := 0; y < 25; y += 5 {
				a[x+y] ^= d
			}
		}
		var b [25]uint64
		for x := 0; x < 5; x++ {
			for y := 0; y < 5; y++ {
				b[y+5*((2*x+3*y)%5)] = bits.RotateLeft64(a[x+5*y], int(keccakRot[x+5*y]))
			}
		}
		for x := 0; x < 5; x++ {
			for y := 0; y < 5; y++ {
				a[x+5*y] = b[x+5*y] ^ (^b[(x+1)%5+5*y] & b[(x+2)%5+5*y])
			}
		}
		a[0] ^= keccakRC[round]
	}
}

func init() {
	reg(func(fr *frame, args []value) value {
		in := fr.in
		p, ok := args[0].(*value)
		if !ok || p == nil {
			in.unsupported("keccakF1600: bad state pointer")
		}
		arr, ok := (*p).(array)
		if !ok || len(arr) != 25 {
			in.unsupported("keccakF1600: bad state")
		}
		var st [25]uint64
		for i := range st {
			t := in.asTerm(arr[i], "keccak lane")
			if !t.IsConst() {
				in.unsupported("keccak of symbolic data (stub the hash as an uninterpreted function)")
			}
			st[i] = t.k
		}
		keccakF1600Concrete(&st)
		for i := range st {
			arr[i] = in.ts.BV(st[i], 64)
		}
		in.steps += 2000
		return nil
	}, "golang.org/x/crypto/sha3.keccakF1600")
}

package main

// Hash-consed SMT term DAG with constant folding and light simplification.
// Sorts: Bool (w==0) and (_ BitVec w) for w>=1. Constants up to 64 bits are
// kept in k; wider constants in big (as *big.Int, non-negative, < 2^w).

import (
	"fmt"
	"math/big"
	"strings"
)

type Op uint8

const (
	OpConst Op = iota
	OpVar
	OpNot
	OpAnd
	OpOr
	OpIte
	OpEq
	OpAdd
	OpSub
	OpMul
	OpUDiv
	OpURem
	OpSDiv
	OpSRem
	OpBAnd
	OpBOr
	OpBXor
	OpBNot
	OpNeg
	OpShl
	OpLShr
	OpAShr
	OpULt
	OpULe
	OpSLt
	OpSLe
	OpExtract // a[hi:lo], k = hi<<16|lo
	OpConcat
	OpZExt // to width w
	OpSExt
)

var opNames = [...]string{"const", "var", "not", "and", "or", "ite", "=", "bvadd", "bvsub", "bvmul", "bvudiv", "bvurem", "bvsdiv", "bvsrem",
	"bvand", "bvor", "bvxor", "bvnot", "bvneg", "bvshl", "bvlshr", "bvashr", "bvult", "bvule", "bvslt", "bvsle", "extract", "concat", "zero_extend", "sign_extend"}

type Term struct {
	op      Op
	w       int // 0 = Bool
	k       uint64
	big     *big.Int
	name    string
	a, b, c *Term
	id      int
	printed bool // define-fun already sent to solver
}

type tkey struct {
	op      Op
	w       int
	k       uint64
	s       string
	a, b, c int
}

type TermStore struct {
	tab   map[tkey]*Term
	all   []*Term
	vars  []*Term
	True  *Term
	False *Term
}

func NewTermStore() *TermStore {
	ts := &TermStore{tab: make(map[tkey]*Term)}
	ts.True = ts.mk(&Term{op: OpConst, w: 0, k: 1})
	ts.False = ts.mk(&Term{op: OpConst, w: 0, k: 0})
	return ts
}

func tid(t *Term) int {
	if t == nil {
		return -1
	}
	return t.id
}

func (ts *TermStore) mk(t *Term) *Term {
	key := tkey{op: t.op, w: t.w, k: t.k, s: t.name, a: tid(t.a), b: tid(t.b), c: tid(t.c)}
	if t.big != nil {
		key.s = t.big.Text(16)
	}
	if x, ok := ts.tab[key]; ok {
		return x
	}
	t.id = len(ts.all)
	ts.all = append(ts.all, t)
	ts.tab[key] = t
	if t.op == OpVar {
		ts.vars = append(ts.vars, t)
	}
	return t
}

func mask(w int) uint64 {
	if w >= 64 {
		return ^uint64(0)
	}
	return (uint64(1) << uint(w)) - 1
}

func (t *Term) IsConst() bool { return t.op == OpConst }
func (t *Term) IsBool() bool  { return t.w == 0 }
func (t *Term) IsTrue() bool  { return t.op == OpConst && t.w == 0 && t.k == 1 }
func (t *Term) IsFalse() bool { return t.op == OpConst && t.w == 0 && t.k == 0 }

// Uint returns the constant's value (w<=64).
func (t *Term) Uint() uint64 { return t.k }

// Int returns the constant's signed value (w<=64).
func (t *Term) Int() int64 {
	if t.w >= 64 {
		return int64(t.k)
	}
	if t.k>>(uint(t.w)-1)&1 == 1 {
		return int64(t.k | ^mask(t.w))
	}
	return int64(t.k)
}

func (t *Term) Big() *big.Int {
	if t.big != nil {
		return t.big
	}
	return new(big.Int).SetUint64(t.k)
}

func (ts *TermStore) Bool(b bool) *Term {
	if b {
		return ts.True
	}
	return ts.False
}

func (ts *TermStore) BV(v uint64, w int) *Term {
	if w > 64 {
		return ts.BigBV(new(big.Int).SetUint64(v), w)
	}
	return ts.mk(&Term{op: OpConst, w: w, k: v & mask(w)})
}

func (ts *TermStore) BVi(v int64, w int) *Term {
	if w > 64 {
		b := big.NewInt(v)
		return ts.BigBV(b, w)
	}
	return ts.BV(uint64(v), w)
}

func (ts *TermStore) BigBV(v *big.Int, w int) *Term {
	m := new(big.Int).Lsh(big.NewInt(1), uint(w))
	x := new(big.Int).Mod(v, m)
	if w <= 64 {
		return ts.BV(x.Uint64(), w)
	}
	return ts.mk(&Term{op: OpConst, w: w, big: x})
}

func (ts *TermStore) Var(name string, w int) *Term {
	return ts.mk(&Term{op: OpVar, w: w, name: name})
}

func (ts *TermStore) Not(a *Term) *Term {
	if a.IsConst() {
		return ts.Bool(a.k == 0)
	}
	if a.op == OpNot {
		return a.a
	}
	return ts.mk(&Term{op: OpNot, a: a})
}

func (ts *TermStore) And(a, b *Term) *Term {
	if a.IsFalse() || b.IsFalse() {
		return ts.False
	}
	if a.IsTrue() {
		return b
	}
	if b.IsTrue() {
		return a
	}
	if a == b {
		return a
	}
	if (a.op == OpNot && a.a == b) || (b.op == OpNot && b.a == a) {
		return ts.False
	}
	if a.id > b.id {
		a, b = b, a
	}
	return ts.mk(&Term{op: OpAnd, a: a, b: b})
}

func (ts *TermStore) Or(a, b *Term) *Term {
	if a.IsTrue() || b.IsTrue() {
		return ts.True
	}
	if a.IsFalse() {
		return b
	}
	if b.IsFalse() {
		return a
	}
	if a == b {
		return a
	}
	if (a.op == OpNot && a.a == b) || (b.op == OpNot && b.a == a) {
		return ts.True
	}
	if a.id > b.id {
		a, b = b, a
	}
	return ts.mk(&Term{op: OpOr, a: a, b: b})
}

func (ts *TermStore) Implies(a, b *Term) *Term { return ts.Or(ts.Not(a), b) }

func (ts *TermStore) Ite(c, a, b *Term) *Term {
	if c.IsConst() {
		if c.k == 1 {
			return a
		}
		return b
	}
	if a == b {
		return a
	}
	if a.w == 0 {
		if a.IsTrue() && b.IsFalse() {
			return c
		}
		if a.IsFalse() && b.IsTrue() {
			return ts.Not(c)
		}
		if a.IsTrue() {
			return ts.Or(c, b)
		}
		if a.IsFalse() {
			return ts.And(ts.Not(c), b)
		}
		if b.IsTrue() {
			return ts.Or(ts.Not(c), a)
		}
		if b.IsFalse() {
			return ts.And(c, a)
		}
	}
	if a.w != b.w {
		panic(fmt.Sprintf("ite width mismatch %d %d", a.w, b.w))
	}
	return ts.mk(&Term{op: OpIte, w: a.w, a: c, b: a, c: b})
}

func (ts *TermStore) Eq(a, b *Term) *Term {
	if a == b {
		return ts.True
	}
	if a.w != b.w {
		panic(fmt.Sprintf("eq width mismatch %d %d (%s / %s)", a.w, b.w, ts.Show(a), ts.Show(b)))
	}
	if a.IsConst() && b.IsConst() {
		if a.big != nil || b.big != nil {
			return ts.Bool(a.Big().Cmp(b.Big()) == 0)
		}
		return ts.Bool(a.k == b.k)
	}
	if a.w == 0 {
		if a.IsConst() {
			a, b = b, a
		}
		if b.IsTrue() {
			return a
		}
		if b.IsFalse() {
			return ts.Not(a)
		}
	}
	// ite(c,k1,k2) == k  with constants
	if b.IsConst() && a.op == OpIte && a.b.IsConst() && a.c.IsConst() {
		return ts.Ite(a.a, ts.Eq(a.b, b), ts.Eq(a.c, b))
	}
	if a.IsConst() && b.op == OpIte && b.b.IsConst() && b.c.IsConst() {
		return ts.Ite(b.a, ts.Eq(b.b, a), ts.Eq(b.c, a))
	}
	// zext(x) == const
	if b.IsConst() && b.big == nil && (a.op == OpZExt) && a.a.w <= 64 {
		if b.k > mask(a.a.w) {
			return ts.False
		}
		return ts.Eq(a.a, ts.BV(b.k, a.a.w))
	}
	if a.id > b.id {
		a, b = b, a
	}
	return ts.mk(&Term{op: OpEq, a: a, b: b})
}

func (ts *TermStore) bigBin(op Op, a, b *Term) *Term {
	x, y := a.Big(), b.Big()
	w := a.w
	r := new(big.Int)
	switch op {
	case OpAdd:
		r.Add(x, y)
	case OpSub:
		r.Sub(x, y)
	case OpMul:
		r.Mul(x, y)
	case OpBAnd:
		r.And(x, y)
	case OpBOr:
		r.Or(x, y)
	case OpBXor:
		r.Xor(x, y)
	case OpUDiv:
		if y.Sign() == 0 {
			r.Sub(new(big.Int).Lsh(big.NewInt(1), uint(w)), big.NewInt(1))
		} else {
			r.Quo(x, y)
		}
	case OpURem:
		if y.Sign() == 0 {
			r.Set(x)
		} else {
			r.Rem(x, y)
		}
	case OpShl:
		if y.BitLen() > 32 || y.Uint64() >= uint64(w) {
			r.SetInt64(0)
		} else {
			r.Lsh(x, uint(y.Uint64()))
		}
	case OpLShr:
		if y.BitLen() > 32 || y.Uint64() >= uint64(w) {
			r.SetInt64(0)
		} else {
			r.Rsh(x, uint(y.Uint64()))
		}
	default:
		return nil
	}
	return ts.BigBV(r, w)
}

// Bin builds a binary bit-vector operation with folding.
func (ts *TermStore) Bin(op Op, a, b *Term) *Term {
	if a.w != b.w {
		panic(fmt.Sprintf("bin %s width mismatch %d %d", opNames[op], a.w, b.w))
	}
	w := a.w
	if a.IsConst() && b.IsConst() {
		if w > 64 {
			if r := ts.bigBin(op, a, b); r != nil {
				return r
			}
		} else {
			x, y := a.k, b.k
			sx, sy := a.Int(), b.Int()
			switch op {
			case OpAdd:
				return ts.BV(x+y, w)
			case OpSub:
				return ts.BV(x-y, w)
			case OpMul:
				return ts.BV(x*y, w)
			case OpUDiv:
				if y == 0 {
					return ts.BV(mask(w), w)
				}
				return ts.BV(x/y, w)
			case OpURem:
				if y == 0 {
					return ts.BV(x, w)
				}
				return ts.BV(x%y, w)
			case OpSDiv:
				if sy == 0 {
					if sx < 0 {
						return ts.BV(1, w)
					}
					return ts.BV(mask(w), w)
				}
				if sy == -1 {
					return ts.BVi(-sx, w)
				}
				return ts.BVi(sx/sy, w)
			case OpSRem:
				if sy == 0 {
					return ts.BVi(sx, w)
				}
				if sy == -1 {
					return ts.BV(0, w)
				}
				return ts.BVi(sx%sy, w)
			case OpBAnd:
				return ts.BV(x&y, w)
			case OpBOr:
				return ts.BV(x|y, w)
			case OpBXor:
				return ts.BV(x^y, w)
			case OpShl:
				if y >= uint64(w) {
					return ts.BV(0, w)
				}
				return ts.BV(x<<y, w)
			case OpLShr:
				if y >= uint64(w) {
					return ts.BV(0, w)
				}
				return ts.BV(x>>y, w)
			case OpAShr:
				if y >= uint64(w) {
					if sx < 0 {
						return ts.BV(mask(w), w)
					}
					return ts.BV(0, w)
				}
				return ts.BVi(sx>>y, w)
			}
		}
	}
	isZero := func(t *Term) bool { return t.IsConst() && t.big == nil && t.k == 0 }
	isOnes := func(t *Term) bool { return t.IsConst() && t.big == nil && w <= 64 && t.k == mask(w) }
	switch op {
	case OpAdd:
		if isZero(a) {
			return b
		}
		if isZero(b) {
			return a
		}
		// (x + k1) + k2
		if b.IsConst() && a.op == OpAdd && a.b.IsConst() {
			return ts.Bin(OpAdd, a.a, ts.Bin(OpAdd, a.b, b))
		}
		if a.IsConst() { // constants to the right
			a, b = b, a
		}
	case OpSub:
		if isZero(b) {
			return a
		}
		if a == b {
			return ts.BV(0, w)
		}
		if b.IsConst() {
			return ts.Bin(OpAdd, a, ts.Neg(b))
		}
	case OpMul:
		if isZero(a) || isZero(b) {
			return ts.BV(0, w)
		}
		if a.IsConst() && a.big == nil && a.k == 1 {
			return b
		}
		if b.IsConst() && b.big == nil && b.k == 1 {
			return a
		}
		if a.IsConst() {
			a, b = b, a
		}
	case OpBAnd:
		if isZero(a) || isZero(b) {
			return ts.BV(0, w)
		}
		if isOnes(a) {
			return b
		}
		if isOnes(b) {
			return a
		}
		if a == b {
			return a
		}
		if a.IsConst() {
			a, b = b, a
		}
	case OpBOr:
		if isZero(a) {
			return b
		}
		if isZero(b) {
			return a
		}
		if a == b {
			return a
		}
		if a.IsConst() {
			a, b = b, a
		}
	case OpBXor:
		if isZero(a) {
			return b
		}
		if isZero(b) {
			return a
		}
		if a == b {
			return ts.BV(0, w)
		}
		if a.IsConst() {
			a, b = b, a
		}
	case OpShl, OpLShr, OpAShr:
		if isZero(b) {
			return a
		}
		if isZero(a) {
			return a
		}
	case OpUDiv:
		if b.IsConst() && b.big == nil && b.k == 1 {
			return a
		}
	}
	return ts.mk(&Term{op: op, w: w, a: a, b: b})
}

func (ts *TermStore) Neg(a *Term) *Term {
	if a.IsConst() {
		if a.w > 64 {
			return ts.BigBV(new(big.Int).Neg(a.Big()), a.w)
		}
		return ts.BV(-a.k, a.w)
	}
	return ts.mk(&Term{op: OpNeg, w: a.w, a: a})
}

func (ts *TermStore) BNot(a *Term) *Term {
	if a.IsConst() {
		if a.w > 64 {
			return ts.BigBV(new(big.Int).Not(a.Big()), a.w)
		}
		return ts.BV(^a.k, a.w)
	}
	if a.op == OpBNot {
		return a.a
	}
	return ts.mk(&Term{op: OpBNot, w: a.w, a: a})
}

// Cmp builds a comparison (OpULt/OpULe/OpSLt/OpSLe).
func (ts *TermStore) Cmp(op Op, a, b *Term) *Term {
	if a.w != b.w {
		panic(fmt.Sprintf("cmp width mismatch %d %d", a.w, b.w))
	}
	if a.IsConst() && b.IsConst() {
		if a.w > 64 {
			c := a.Big().Cmp(b.Big())
			switch op {
			case OpULt:
				return ts.Bool(c < 0)
			case OpULe:
				return ts.Bool(c <= 0)
			}
		} else {
			switch op {
			case OpULt:
				return ts.Bool(a.k < b.k)
			case OpULe:
				return ts.Bool(a.k <= b.k)
			case OpSLt:
				return ts.Bool(a.Int() < b.Int())
			case OpSLe:
				return ts.Bool(a.Int() <= b.Int())
			}
		}
	}
	if a == b {
		return ts.Bool(op == OpULe || op == OpSLe)
	}
	if a.w <= 64 {
		// trivial bounds
		if op == OpULt && b.IsConst() && b.k == 0 {
			return ts.False
		}
		if op == OpULe && a.IsConst() && a.k == 0 {
			return ts.True
		}
		// zext(x) compared with constants
		if (op == OpULt || op == OpSLt) && a.op == OpZExt && b.IsConst() && b.Int() >= 0 && a.a.w < 64 && b.k > mask(a.a.w) {
			return ts.True
		}
		if (op == OpULe || op == OpSLe) && a.op == OpZExt && b.IsConst() && b.Int() >= 0 && a.a.w < 64 && b.k >= mask(a.a.w) {
			return ts.True
		}
		if (op == OpSLe || op == OpSLt) && b.op == OpZExt && a.IsConst() && b.a.w < b.w && (a.Int() < 0 || (op == OpSLe && a.k == 0)) {
			return ts.True
		}
		if (op == OpULe) && b.op == OpZExt && a.IsConst() && a.k == 0 {
			return ts.True
		}
	}
	return ts.mk(&Term{op: op, a: a, b: b})
}

func (ts *TermStore) Extract(a *Term, hi, lo int) *Term {
	w := hi - lo + 1
	if lo == 0 && w == a.w {
		return a
	}
	if a.IsConst() {
		if a.w > 64 {
			r := new(big.Int).Rsh(a.Big(), uint(lo))
			return ts.BigBV(r, w)
		}
		return ts.BV(a.k>>uint(lo), w)
	}
	if (a.op == OpZExt || a.op == OpSExt) && hi < a.a.w {
		return ts.Extract(a.a, hi, lo)
	}
	if a.op == OpZExt && lo >= a.a.w {
		return ts.BV(0, w)
	}
	if a.op == OpConcat {
		// a = a.a ++ a.b ; low part is a.b
		lw := a.b.w
		if hi < lw {
			return ts.Extract(a.b, hi, lo)
		}
		if lo >= lw {
			return ts.Extract(a.a, hi-lw, lo-lw)
		}
	}
	if a.op == OpExtract {
		l0 := int(a.k & 0xffff)
		return ts.Extract(a.a, hi+l0, lo+l0)
	}
	return ts.mk(&Term{op: OpExtract, w: w, a: a, k: uint64(hi)<<16 | uint64(lo)})
}

func (ts *TermStore) Concat(hi, lo *Term) *Term {
	w := hi.w + lo.w
	if hi.IsConst() && lo.IsConst() {
		r := new(big.Int).Lsh(hi.Big(), uint(lo.w))
		r.Or(r, lo.Big())
		return ts.BigBV(r, w)
	}
	if hi.IsConst() && hi.big == nil && hi.k == 0 {
		return ts.ZExt(lo, w)
	}
	// extract(x,h,m+1) ++ extract(x,m,l) = extract(x,h,l)
	if hi.op == OpExtract && lo.op == OpExtract && hi.a == lo.a {
		hl := int(hi.k & 0xffff)
		lh := int(lo.k >> 16)
		if hl == lh+1 {
			return ts.Extract(hi.a, int(hi.k>>16), int(lo.k&0xffff))
		}
	}
	return ts.mk(&Term{op: OpConcat, w: w, a: hi, b: lo})
}

func (ts *TermStore) ZExt(a *Term, w int) *Term {
	if a.w == w {
		return a
	}
	if a.w > w {
		return ts.Extract(a, w-1, 0)
	}
	if a.IsConst() {
		return ts.BigBV(a.Big(), w)
	}
	if a.op == OpZExt {
		return ts.ZExt(a.a, w)
	}
	return ts.mk(&Term{op: OpZExt, w: w, a: a})
}

func (ts *TermStore) SExt(a *Term, w int) *Term {
	if a.w == w {
		return a
	}
	if a.w > w {
		return ts.Extract(a, w-1, 0)
	}
	if a.IsConst() {
		if a.w <= 64 {
			return ts.BigBV(big.NewInt(a.Int()), w)
		}
		x := new(big.Int).Set(a.Big())
		if x.Bit(a.w-1) == 1 {
			x.Sub(x, new(big.Int).Lsh(big.NewInt(1), uint(a.w)))
		}
		return ts.BigBV(x, w)
	}
	if a.op == OpZExt && a.w > a.a.w {
		return ts.ZExt(a.a, w)
	}
	return ts.mk(&Term{op: OpSExt, w: w, a: a})
}

// ---------------------------------------------------------------------------
// printing

func sortName(w int) string {
	if w == 0 {
		return "Bool"
	}
	return fmt.Sprintf("(_ BitVec %d)", w)
}

func smtSym(name string) string {
	return "|" + strings.NewReplacer("|", "_", "\\", "_").Replace(name) + "|"
}

func (t *Term) ref() string {
	switch t.op {
	case OpConst:
		if t.w == 0 {
			if t.k == 1 {
				return "true"
			}
			return "false"
		}
		if t.w%4 == 0 {
			return fmt.Sprintf("#x%0*s", t.w/4, t.Big().Text(16))
		}
		return fmt.Sprintf("#b%0*s", t.w, t.Big().Text(2))
	case OpVar:
		return smtSym(t.name)
	}
	return fmt.Sprintf("t%d", t.id)
}

func (t *Term) body() string {
	switch t.op {
	case OpNot, OpBNot, OpNeg:
		return fmt.Sprintf("(%s %s)", opNames[t.op], t.a.ref())
	case OpIte:
		return fmt.Sprintf("(ite %s %s %s)", t.a.ref(), t.b.ref(), t.c.ref())
	case OpExtract:
		return fmt.Sprintf("((_ extract %d %d) %s)", t.k>>16, t.k&0xffff, t.a.ref())
	case OpZExt, OpSExt:
		return fmt.Sprintf("((_ %s %d) %s)", opNames[t.op], t.w-t.a.w, t.a.ref())
	default:
		return fmt.Sprintf("(%s %s %s)", opNames[t.op], t.a.ref(), t.b.ref())
	}
}

// Show renders a term as a nested expression (for diagnostics; bounded depth).
func (ts *TermStore) Show(t *Term) string { return showDepth(t, 6) }

func showDepth(t *Term, d int) string {
	if t == nil {
		return "<nil>"
	}
	if t.op == OpConst {
		if t.w == 0 {
			return t.ref()
		}
		if t.w <= 64 {
			return fmt.Sprintf("%d:%d", t.k, t.w)
		}
		return t.ref()
	}
	if t.op == OpVar {
		return t.name
	}
	if d == 0 {
		return "…"
	}
	switch t.op {
	case OpNot, OpBNot, OpNeg:
		return fmt.Sprintf("(%s %s)", opNames[t.op], showDepth(t.a, d-1))
	case OpIte:
		return fmt.Sprintf("(ite %s %s %s)", showDepth(t.a, d-1), showDepth(t.b, d-1), showDepth(t.c, d-1))
	case OpExtract:
		return fmt.Sprintf("(%s[%d:%d])", showDepth(t.a, d-1), t.k>>16, t.k&0xffff)
	case OpZExt, OpSExt:
		return fmt.Sprintf("(%s%d %s)", opNames[t.op], t.w, showDepth(t.a, d-1))
	}
	return fmt.Sprintf("(%s %s %s)", opNames[t.op], showDepth(t.a, d-1), showDepth(t.b, d-1))
}

// Eval evaluates t under an assignment of variables (missing vars = 0).
func (ts *TermStore) Eval(t *Term, m map[*Term]*big.Int, memo map[*Term]*big.Int) *big.Int {
	if v, ok := memo[t]; ok {
		return v
	}
	var r *big.Int
	switch t.op {
	case OpConst:
		r = t.Big()
	case OpVar:
		if v, ok := m[t]; ok {
			r = v
		} else {
			r = new(big.Int)
		}
	default:
		// substitute constants and rebuild through the folding constructors
		sub := func(x *Term) *Term {
			if x == nil {
				return nil
			}
			v := ts.Eval(x, m, memo)
			if x.w == 0 {
				return ts.Bool(v.Sign() != 0)
			}
			return ts.BigBV(v, x.w)
		}
		var c *Term
		switch t.op {
		case OpNot:
			c = ts.Not(sub(t.a))
		case OpAnd:
			c = ts.And(sub(t.a), sub(t.b))
		case OpOr:
			c = ts.Or(sub(t.a), sub(t.b))
		case OpIte:
			if ts.Eval(t.a, m, memo).Sign() != 0 {
				c = sub(t.b)
			} else {
				c = sub(t.c)
			}
		case OpEq:
			c = ts.Eq(sub(t.a), sub(t.b))
		case OpNeg:
			c = ts.Neg(sub(t.a))
		case OpBNot:
			c = ts.BNot(sub(t.a))
		case OpULt, OpULe, OpSLt, OpSLe:
			a, b := sub(t.a), sub(t.b)
			if a.w > 64 && (t.op == OpSLt || t.op == OpSLe) {
				panic("eval: wide signed compare")
			}
			c = ts.Cmp(t.op, a, b)
		case OpExtract:
			c = ts.Extract(sub(t.a), int(t.k>>16), int(t.k&0xffff))
		case OpConcat:
			c = ts.Concat(sub(t.a), sub(t.b))
		case OpZExt:
			c = ts.ZExt(sub(t.a), t.w)
		case OpSExt:
			c = ts.SExt(sub(t.a), t.w)
		default:
			c = ts.Bin(t.op, sub(t.a), sub(t.b))
		}
		if !c.IsConst() {
			panic("eval: non-constant result for " + opNames[t.op])
		}
		r = c.Big()
	}
	memo[t] = r
	return r
}

package main

// Intrinsics: harness API, functions without a Go body, noise (logging/formatting)
// and the by-name stub kinds (noop / opaque / nondet / uf).

import (
	"crypto/sha256"
	"fmt"
	"go/types"
	"math/big"
	"sort"
	"strings"

	"golang.org/x/tools/go/ssa"
)

type intrinsicFn func(fr *frame, args []value) value

var intrinsics = map[string]intrinsicFn{}

func reg(f intrinsicFn, names ...string) {
	for _, n := range names {
		intrinsics[n] = f
	}
}

func (in *interp) freshVar(name string, w int) *Term {
	k := in.nondetCount[name]
	in.nondetCount[name] = k + 1
	full := fmt.Sprintf("%s#%d", name, k)
	t := in.ts.Var(fmt.Sprintf("%s:%d", full, w), w)
	in.nondets = append(in.nondets, nondetRec{name: full, t: t})
	return t
}

func goString(fr *frame, v value) string {
	s, ok := v.(string)
	if !ok {
		fr.in.unsupported(fmt.Sprintf("harness API needs a constant string, got %T", v))
	}
	return s
}

func (in *interp) concOrFail(v value, what string) int64 {
	t := in.asTerm(v, what)
	if !t.IsConst() {
		in.unsupported(what + " must be concrete")
	}
	return t.Int()
}

func init() {
	// ---- harness API (matched by bare function name in any package, see harnessAPI) ----

	// ---- runtime / os ----
	reg(func(fr *frame, args []value) value { return nil },
		"runtime.GC", "runtime.Gosched", "runtime.KeepAlive", "runtime.SetFinalizer", "runtime.Breakpoint",
		"runtime/debug.PrintStack", "time.Sleep", "os.(*File).Sync", "(*os.File).Sync")
	reg(func(fr *frame, args []value) value { return fr.in.ts.BV(16, 64) }, "runtime.NumCPU", "runtime.GOMAXPROCS", "runtime.NumGoroutine")
	reg(func(fr *frame, args []value) value {
		panic(pathAbort{kind: "exit", msg: "os.Exit called at " + fr.in.siteOf(fr.caller)})
	}, "os.Exit", "runtime.Goexit")
	reg(func(fr *frame, args []value) value { return "" }, "os.Getenv")
	reg(func(fr *frame, args []value) value { return []value(nil) }, "runtime/debug.Stack")
	reg(func(fr *frame, args []value) value {
		in := fr.in
		return tuple{in.ts.BV(0, 64), "", in.ts.BV(0, 64), in.ts.False}
	}, "runtime.Caller")
	reg(func(fr *frame, args []value) value { return fr.in.ts.BV(0, 64) }, "runtime.Callers")

	// ---- time ----
	reg(func(fr *frame, args []value) value {
		in := fr.in
		if in.inInit > 0 {
			return structure{in.ts.BV(0, 64), in.ts.BV(1600000000, 64), (*value)(nil)}
		}
		// time.Time{wall uint64, ext int64, loc *Location}; ext = arbitrary non-decreasing instant
		t := in.freshVar("time.Now", 64)
		if in.lastTime != nil {
			in.assume(in.ts.Cmp(OpSLe, in.lastTime, t))
		} else {
			in.assume(in.ts.Cmp(OpSLe, in.ts.BV(0, 64), t))
		}
		in.lastTime = t
		return structure{in.ts.BV(0, 64), t, (*value)(nil)}
	}, "time.Now")
	// time.NewTicker: the first ticker created on a path delivers exactly one tick, later ones never
	// fire (used to step a select loop once)
	reg(func(fr *frame, args []value) value {
		in := fr.in
		ch := &schan{cap: 1}
		if in.tickers == 0 {
			ch.buf = append(ch.buf, structure{in.ts.BV(0, 64), in.ts.BV(0, 64), (*value)(nil)})
		} else {
			ch.never = true
		}
		in.tickers++
		// Ticker{C <-chan Time; r runtimeTimer / initTicker bool}: only C is used by callers
		var cell value = structure{ch, opaque{"ticker internals"}, opaque{"ticker internals"}}
		return &cell
	}, "time.NewTicker")
	reg(func(fr *frame, args []value) value { return nil }, "(*time.Ticker).Stop", "(*time.Ticker).Reset")
	neverChan := func(fr *frame, args []value) value { return &schan{never: true} }
	reg(neverChan, "time.After", "time.Tick")

	// ---- sync ----
	reg(func(fr *frame, args []value) value { // Lock
		in := fr.in
		st := mutexState(fr, args[0])
		s := in.asTerm(*st, "mutex state")
		if !s.IsConst() {
			in.unsupported("symbolic mutex state")
		}
		if s.k != 0 {
			panic(pathAbort{kind: "deadlock", msg: "Lock of a mutex already held by this goroutine at " + in.siteOf(fr.caller)})
		}
		*st = in.ts.BV(1, s.w)
		in.heldLocks++
		return nil
	}, "(*sync.Mutex).Lock")
	reg(func(fr *frame, args []value) value { // TryLock
		in := fr.in
		st := mutexState(fr, args[0])
		s := in.asTerm(*st, "mutex state")
		if s.k != 0 {
			return in.ts.False
		}
		*st = in.ts.BV(1, s.w)
		in.heldLocks++
		return in.ts.True
	}, "(*sync.Mutex).TryLock")
	reg(func(fr *frame, args []value) value { // Unlock
		in := fr.in
		st := mutexState(fr, args[0])
		s := in.asTerm(*st, "mutex state")
		if s.k == 0 {
			panic(targetPanic{v: iface{t: in.runtimeErrorT, v: "sync: unlock of unlocked mutex"}, site: in.siteOf(fr.caller), rt: true})
		}
		*st = in.ts.BV(0, s.w)
		in.heldLocks--
		return nil
	}, "(*sync.Mutex).Unlock")
	// RWMutex{w Mutex, writerSem, readerSem uint32, readerCount, readerWait atomic.Int32}:
	// writerSem slot = writer flag, readerSem slot = number of readers.
	reg(func(fr *frame, args []value) value {
		in := fr.in
		st := rwState(fr, args[0])
		if in.asTerm(st[1], "rw").k != 0 || in.asTerm(st[2], "rw").k != 0 {
			panic(pathAbort{kind: "deadlock", msg: "RWMutex.Lock while held by this goroutine at " + in.siteOf(fr.caller)})
		}
		st[1] = in.ts.BV(1, 32)
		in.heldLocks++
		return nil
	}, "(*sync.RWMutex).Lock")
	reg(func(fr *frame, args []value) value {
		in := fr.in
		st := rwState(fr, args[0])
		if in.asTerm(st[1], "rw").k == 0 {
			panic(targetPanic{v: iface{t: in.runtimeErrorT, v: "sync: Unlock of unlocked RWMutex"}, site: in.siteOf(fr.caller), rt: true})
		}
		st[1] = in.ts.BV(0, 32)
		in.heldLocks--
		return nil
	}, "(*sync.RWMutex).Unlock")
	reg(func(fr *frame, args []value) value {
		in := fr.in
		st := rwState(fr, args[0])
		if in.asTerm(st[1], "rw").k != 0 {
			panic(pathAbort{kind: "deadlock", msg: "RWMutex.RLock while write-locked by this goroutine at " + in.siteOf(fr.caller)})
		}
		st[2] = in.ts.BV(in.asTerm(st[2], "rw").k+1, 32)
		in.heldLocks++
		return nil
	}, "(*sync.RWMutex).RLock")
	reg(func(fr *frame, args []value) value {
		in := fr.in
		st := rwState(fr, args[0])
		if in.asTerm(st[2], "rw").k == 0 {
			panic(targetPanic{v: iface{t: in.runtimeErrorT, v: "sync: RUnlock of unlocked RWMutex"}, site: in.siteOf(fr.caller), rt: true})
		}
		st[2] = in.ts.BV(in.asTerm(st[2], "rw").k-1, 32)
		in.heldLocks--
		return nil
	}, "(*sync.RWMutex).RUnlock")
	reg(func(fr *frame, args []value) value { return nil },
		"(*sync.WaitGroup).Add", "(*sync.WaitGroup).Done", "(*sync.WaitGroup).Wait", "(*sync.Cond).Signal", "(*sync.Cond).Broadcast")
	reg(func(fr *frame, args []value) value {
		in := fr.in
		p := args[0].(*value)
		if in.onceDone[p] {
			return nil
		}
		in.onceDone[p] = true
		in.call(fr, 0, args[1], nil)
		return nil
	}, "(*sync.Once).Do")
	// sync.Map / sync.Pool: modelled on side tables
	reg(func(fr *frame, args []value) value { // Pool.Get
		in := fr.in
		p := args[0].(*value)
		st := (*p).(structure)
		// field "New" is the last field
		newf := st[len(st)-1]
		if n, isnil := isNilValue(newf); isnil && n {
			return iface{}
		}
		return in.call(fr, 0, newf, nil)
	}, "(*sync.Pool).Get")
	reg(func(fr *frame, args []value) value { return nil }, "(*sync.Pool).Put")

	// ---- sync/atomic ----
	atomicLoad := func(fr *frame, args []value) value {
		p := args[0].(*value)
		if p == nil {
			fr.in.rtPanic(fr.caller, "invalid memory address or nil pointer dereference")
		}
		return *p
	}
	atomicStore := func(fr *frame, args []value) value {
		p := args[0].(*value)
		if p == nil {
			fr.in.rtPanic(fr.caller, "invalid memory address or nil pointer dereference")
		}
		*p = args[1]
		return nil
	}
	atomicAdd := func(fr *frame, args []value) value {
		in := fr.in
		p := args[0].(*value)
		if p == nil {
			in.rtPanic(fr.caller, "invalid memory address or nil pointer dereference")
		}
		n := in.ts.Bin(OpAdd, in.asTerm(*p, "atomic"), in.asTerm(args[1], "atomic"))
		*p = n
		return n
	}
	atomicSwap := func(fr *frame, args []value) value {
		p := args[0].(*value)
		old := *p
		*p = args[1]
		return old
	}
	atomicCAS := func(fr *frame, args []value) value {
		in := fr.in
		p := args[0].(*value)
		var c *Term
		switch old := args[1].(type) {
		case *Term:
			c = in.ts.Eq(in.asTerm(*p, "cas"), old)
		case *value:
			c = in.ts.Bool((*p).(*value) == old)
		default:
			in.unsupported("CAS operand")
		}
		if c.IsTrue() || (!c.IsFalse() && in.branch(c, "cas")) {
			*p = args[2]
			return in.ts.True
		}
		return in.ts.False
	}
	for _, ty := range []string{"Int32", "Int64", "Uint32", "Uint64", "Uintptr", "Pointer"} {
		reg(atomicLoad, "sync/atomic.Load"+ty)
		reg(atomicStore, "sync/atomic.Store"+ty)
		reg(atomicSwap, "sync/atomic.Swap"+ty)
		reg(atomicCAS, "sync/atomic.CompareAndSwap"+ty)
		if ty != "Pointer" {
			reg(atomicAdd, "sync/atomic.Add"+ty)
		}
	}
	reg(func(fr *frame, args []value) value {
		in := fr.in
		p := args[0].(*value)
		if v, ok := in.atomicVals[p]; ok {
			return v
		}
		return iface{}
	}, "(*sync/atomic.Value).Load")
	reg(func(fr *frame, args []value) value {
		fr.in.atomicVals[args[0].(*value)] = args[1]
		return nil
	}, "(*sync/atomic.Value).Store")

	// ---- internal/bytealg ----
	reg(func(fr *frame, args []value) value { // Compare(a,b []byte) int
		in := fr.in
		lt, eq := in.strCompare(in.bytesToStr(args[0]), in.bytesToStr(args[1]))
		return in.ts.Ite(eq, in.ts.BV(0, 64), in.ts.Ite(lt, in.ts.BVi(-1, 64), in.ts.BV(1, 64)))
	}, "internal/bytealg.Compare", "bytes.Compare")
	reg(func(fr *frame, args []value) value { // CompareString
		in := fr.in
		lt, eq := in.strCompare(args[0], args[1])
		return in.ts.Ite(eq, in.ts.BV(0, 64), in.ts.Ite(lt, in.ts.BVi(-1, 64), in.ts.BV(1, 64)))
	}, "internal/bytealg.CompareString", "strings.Compare")
	indexByte := func(fr *frame, args []value) value {
		in := fr.in
		var bs []*Term
		switch a := args[0].(type) {
		case []value:
			for _, e := range a {
				bs = append(bs, in.asTerm(e, "byte"))
			}
		default:
			bs = in.strBytes(a)
		}
		c := in.asTerm(args[1], "byte")
		for i, b := range bs {
			e := in.ts.Eq(b, c)
			if e.IsTrue() || (!e.IsFalse() && in.branch(e, "indexbyte")) {
				return in.ts.BVi(int64(i), 64)
			}
		}
		return in.ts.BVi(-1, 64)
	}
	reg(indexByte, "internal/bytealg.IndexByte", "internal/bytealg.IndexByteString", "bytes.IndexByte", "strings.IndexByte")
	reg(func(fr *frame, args []value) value { // Count / CountString(s, c byte) int
		in := fr.in
		var bs []*Term
		switch a := args[0].(type) {
		case []value:
			for _, e := range a {
				bs = append(bs, in.asTerm(e, "byte"))
			}
		default:
			bs = in.strBytes(a)
		}
		c := in.asTerm(args[1], "byte")
		n := in.ts.BV(0, 64)
		for _, b := range bs {
			n = in.ts.Bin(OpAdd, n, in.ts.Ite(in.ts.Eq(b, c), in.ts.BV(1, 64), in.ts.BV(0, 64)))
		}
		return n
	}, "internal/bytealg.Count", "internal/bytealg.CountString")
	reg(func(fr *frame, args []value) value {
		in := fr.in
		n := in.concOrFail(args[0], "MakeNoZero length")
		s := make([]value, n)
		for i := range s {
			s[i] = in.ts.BV(0, 8)
		}
		return s
	}, "internal/bytealg.MakeNoZero")
	reg(func(fr *frame, args []value) value { // Equal(a,b []byte) bool
		in := fr.in
		return in.equals(types.Typ[types.String], in.bytesToStr(args[0]), in.bytesToStr(args[1]))
	}, "internal/bytealg.Equal", "bytes.Equal")

	// ---- sort.Slice family (reflection-free re-implementation: insertion sort) ----
	sortSlice := func(fr *frame, args []value) value {
		in := fr.in
		it, ok := args[0].(iface)
		if !ok {
			in.unsupported("sort.Slice argument")
		}
		s, ok := it.v.([]value)
		if !ok {
			in.unsupported("sort.Slice of non-slice")
		}
		less := args[1]
		for i := 1; i < len(s); i++ {
			for j := i; j > 0; j-- {
				r := in.asTerm(in.call(fr, 0, less, []value{in.ts.BVi(int64(j), 64), in.ts.BVi(int64(j-1), 64)}), "less")
				if r.IsFalse() || (!r.IsTrue() && !in.branch(r, "sort-less")) {
					break
				}
				s[j], s[j-1] = s[j-1], s[j]
			}
		}
		return nil
	}
	reg(sortSlice, "sort.Slice", "sort.SliceStable")

	// ---- formatting (best effort, concrete rendering; symbolic parts render as ?) ----
	reg(func(fr *frame, args []value) value { return fr.in.sprintf(fr, args[0], args[1]) }, "fmt.Sprintf")
	reg(func(fr *frame, args []value) value {
		in := fr.in
		s := in.sprintf(fr, args[0], args[1])
		return in.makeError(s)
	}, "fmt.Errorf")
	reg(func(fr *frame, args []value) value { return fr.in.sprint(fr, args[0], " ") }, "fmt.Sprint", "fmt.Sprintln")
	reg(func(fr *frame, args []value) value {
		in := fr.in
		return tuple{in.ts.BV(0, 64), iface{}}
	}, "fmt.Printf", "fmt.Println", "fmt.Print", "fmt.Fprintf", "fmt.Fprintln", "fmt.Fprint")

	// ---- NaCl secretbox, idealised: Seal(out, msg, nonce, key) = out ++ tag ++ msg with the 16-byte
	// tag = nonce[8:24] xor key[0:16]; Open succeeds iff the tag matches (same nonce, same key)
	sbTag := func(in *interp, nonce, key value) []*Term {
		np, _ := nonce.(*value)
		kp, _ := key.(*value)
		if np == nil || kp == nil {
			in.unsupported("secretbox with nil nonce/key")
		}
		na, ka := (*np).(array), (*kp).(array)
		tag := make([]*Term, 16)
		for i := range tag {
			tag[i] = in.ts.Bin(OpBXor, in.asTerm(na[8+i], "nonce"), in.asTerm(ka[i], "key"))
		}
		return tag
	}
	reg(func(fr *frame, args []value) value {
		in := fr.in
		out, _ := args[0].([]value)
		msg, _ := args[1].([]value)
		for _, t := range sbTag(in, args[2], args[3]) {
			out = append(out, t)
		}
		out = append(out, msg...)
		in.steps += len(msg) / 8
		return out
	}, "golang.org/x/crypto/nacl/secretbox.Seal")
	reg(func(fr *frame, args []value) value {
		in := fr.in
		out, _ := args[0].([]value)
		box, _ := args[1].([]value)
		if len(box) < 16 {
			return tuple{[]value(nil), in.ts.False}
		}
		ok := in.ts.True
		for i, t := range sbTag(in, args[2], args[3]) {
			ok = in.ts.And(ok, in.ts.Eq(in.asTerm(box[i], "box"), t))
		}
		if ok.IsFalse() || (!ok.IsTrue() && !in.branch(ok, "secretbox-open")) {
			return tuple{[]value(nil), in.ts.False}
		}
		out = append(out, box[16:]...)
		in.steps += len(box) / 8
		return tuple{out, in.ts.True}
	}, "golang.org/x/crypto/nacl/secretbox.Open")

	// ---- reflect: only as an opaque token (e.g. reflect.TypeOf(x) handed to a logger) ----
	reg(func(fr *frame, args []value) value { return opaque{"reflect.TypeOf"} }, "reflect.TypeOf", "reflect.ValueOf")

	// ---- math/rand: seeding is a no-op, draws are arbitrary values ----
	reg(func(fr *frame, args []value) value { return nil }, "math/rand.Seed", "(*math/rand.Rand).Seed", "(*math/rand.rngSource).Seed", "(*math/rand.lockedSource).seed")
	randInt := func(w int, bounded bool) intrinsicFn {
		return func(fr *frame, args []value) value {
			in := fr.in
			if in.inInit > 0 {
				return in.ts.BV(4, w)
			}
			v := in.freshVar("rand", w)
			in.assume(in.ts.Cmp(OpSLe, in.ts.BV(0, w), v))
			if bounded {
				n := in.asTerm(args[len(args)-1], "rand bound")
				in.assume(in.ts.Cmp(OpSLt, v, n))
			}
			return v
		}
	}
	reg(randInt(64, false), "math/rand.Int63", "math/rand.Int", "(*math/rand.Rand).Int63", "(*math/rand.Rand).Int")
	reg(randInt(32, false), "math/rand.Int31", "(*math/rand.Rand).Int31")
	reg(randInt(64, true), "math/rand.Intn", "math/rand.Int63n", "(*math/rand.Rand).Intn", "(*math/rand.Rand).Int63n")
	reg(randInt(32, true), "math/rand.Int31n", "(*math/rand.Rand).Int31n")
	reg(func(fr *frame, args []value) value { return fr.in.freshVar("rand", 32) }, "math/rand.Uint32", "(*math/rand.Rand).Uint32")
	reg(func(fr *frame, args []value) value { return fr.in.freshVar("rand", 64) }, "math/rand.Uint64", "(*math/rand.Rand).Uint64")

	// ---- os / io noise ----
}

func (in *interp) bytesToStr(v value) value {
	switch a := v.(type) {
	case []value:
		bs := make([]*Term, len(a))
		for i, e := range a {
			bs[i] = in.asTerm(e, "byte")
		}
		return in.mkStr(bs)
	case string, symstr:
		return a
	}
	in.unsupported(fmt.Sprintf("bytes value %T", v))
	return nil
}

func mutexState(fr *frame, recv value) *value {
	p, ok := recv.(*value)
	if !ok || p == nil {
		fr.in.rtPanic(fr.caller, "invalid memory address or nil pointer dereference")
	}
	st := (*p).(structure)
	// go1.23: Mutex{state int32, sema uint32}
	return &st[0]
}

func rwState(fr *frame, recv value) structure {
	p, ok := recv.(*value)
	if !ok || p == nil {
		fr.in.rtPanic(fr.caller, "invalid memory address or nil pointer dereference")
	}
	return (*p).(structure)
}

// makeError builds an *errors.errorString-like error value carrying msg.
func (in *interp) makeError(msg value) value {
	if in.errorStringT == nil {
		in.unsupported("errors package not loaded")
	}
	var cell value = structure{msg}
	return iface{t: types.NewPointer(in.errorStringT), v: &cell}
}

// render gives a best-effort concrete rendering of a value for formatting.
func (in *interp) render(fr *frame, v value, depth int) string {
	switch x := v.(type) {
	case *Term:
		if x.IsConst() {
			if x.w == 0 {
				if x.k == 1 {
					return "true"
				}
				return "false"
			}
			return fmt.Sprint(x.Int())
		}
		return "?"
	case string:
		return x
	case symstr:
		return strings.Repeat("?", len(x))
	case float64:
		return fmt.Sprint(x)
	case iface:
		if x.t == nil {
			return "<nil>"
		}
		if depth < 2 {
			// error / Stringer
			for _, m := range []string{"Error", "String"} {
				if f := in.findMethod(x.t, m); f != nil && f.Signature.Params().Len() == 0 && f.Signature.Results().Len() == 1 && isString(f.Signature.Results().At(0).Type()) {
					if in.fmtCalls {
						r := in.tryCall(fr, f, []value{x.v})
						if s, ok := r.(string); ok {
							return s
						}
					}
					return "<" + x.t.String() + ">"
				}
			}
		}
		return in.render(fr, x.v, depth+1)
	case []value:
		if len(x) > 64 {
			return fmt.Sprintf("[%d elems]", len(x))
		}
		var p []string
		for _, e := range x {
			p = append(p, in.render(fr, e, depth+1))
		}
		return "[" + strings.Join(p, " ") + "]"
	case structure:
		var p []string
		for _, e := range x {
			p = append(p, in.render(fr, e, depth+1))
		}
		return "{" + strings.Join(p, " ") + "}"
	case array:
		return in.render(fr, []value(x), depth)
	case *value:
		if x == nil {
			return "<nil>"
		}
		return "0xptr"
	case nil:
		return "<nil>"
	}
	return fmt.Sprintf("<%T>", v)
}

// lookupFunc finds a package-level function by its full name "pkgpath.Name".
func (in *interp) lookupFunc(full string) *ssa.Function {
	i := strings.LastIndex(full, ".")
	if i < 0 {
		return nil
	}
	pkgPath, name := full[:i], full[i+1:]
	for _, p := range in.prog.AllPackages() {
		if p.Pkg.Path() == pkgPath {
			return p.Func(name)
		}
	}
	return nil
}

// findMethod returns the exported method name of t, or nil.
func (in *interp) findMethod(t types.Type, name string) *ssa.Function {
	sel := in.prog.MethodSets.MethodSet(t).Lookup(nil, name)
	if sel == nil {
		return nil
	}
	return in.prog.MethodValue(sel)
}

func (in *interp) tryCall(fr *frame, f *ssa.Function, args []value) (res value) {
	defer func() {
		if r := recover(); r != nil {
			if pa, ok := r.(pathAbort); ok && (pa.kind == "unsupported" || pa.kind == "engine") {
				res = nil
				return
			}
			if _, ok := r.(targetPanic); ok {
				res = nil
				return
			}
			panic(r)
		}
	}()
	return in.callSSA(fr, 0, f, args, nil)
}

func (in *interp) sprintf(fr *frame, format value, argv value) value {
	f, ok := format.(string)
	if !ok {
		return "?fmt"
	}
	args, _ := argv.([]value)
	var sb strings.Builder
	ai := 0
	for i := 0; i < len(f); i++ {
		if f[i] != '%' {
			sb.WriteByte(f[i])
			continue
		}
		j := i + 1
		for j < len(f) && strings.IndexByte("+-# 0123456789.*", f[j]) >= 0 {
			j++
		}
		if j >= len(f) {
			break
		}
		verb := f[j]
		spec := f[i : j+1]
		i = j
		if verb == '%' {
			sb.WriteByte('%')
			continue
		}
		if ai >= len(args) {
			sb.WriteString("%!" + string(verb) + "(MISSING)")
			continue
		}
		a := args[ai]
		ai++
		// exact rendering for concrete scalars under common verbs
		if it, ok := a.(iface); ok {
			if t, ok := it.v.(*Term); ok && t.IsConst() && t.w > 0 {
				_, signed, _ := intType(it.t)
				if strings.IndexByte("dxXobc", verb) >= 0 || verb == 'v' {
					sp := spec
					if verb == 'v' {
						sp = spec[:len(spec)-1] + "d"
					}
					if signed {
						fmt.Fprintf(&sb, sp, t.Int())
					} else {
						fmt.Fprintf(&sb, sp, t.Uint())
					}
					continue
				}
			}
			if s, ok := it.v.(string); ok && (verb == 's' || verb == 'v' || verb == 'q' || verb == 'x' || verb == 'X') {
				fmt.Fprintf(&sb, spec, s)
				continue
			}
			if bs, ok := it.v.([]value); ok && (verb == 'X' || verb == 'x' || verb == 's') && allConstBytes(bs) {
				raw := make([]byte, len(bs))
				for k, e := range bs {
					raw[k] = byte(e.(*Term).k)
				}
				fmt.Fprintf(&sb, spec, raw)
				continue
			}
		}
		sb.WriteString(in.render(fr, a, 0))
	}
	return sb.String()
}

func allConstBytes(bs []value) bool {
	for _, e := range bs {
		t, ok := e.(*Term)
		if !ok || !t.IsConst() || t.w != 8 {
			return false
		}
	}
	return true
}

func (in *interp) sprint(fr *frame, argv value, sep string) value {
	args, _ := argv.([]value)
	var p []string
	for _, a := range args {
		p = append(p, in.render(fr, a, 0))
	}
	return strings.Join(p, sep)
}

// ---------------------------------------------------------------------------
// harness API, matched on the bare function name of a function declared in a
// file whose name starts with zz_verif

func (in *interp) harnessAPI(fr *frame, name string, args []value) (value, bool) {
	ts := in.ts
	switch name {
	case "vNondetBool":
		return in.freshVar(goString(fr, args[0]), 0), true
	case "vNondetByte", "vNondetUint8":
		return in.freshVar(goString(fr, args[0]), 8), true
	case "vNondetInt8":
		return in.freshVar(goString(fr, args[0]), 8), true
	case "vNondetInt16", "vNondetUint16":
		return in.freshVar(goString(fr, args[0]), 16), true
	case "vNondetInt32", "vNondetUint32":
		return in.freshVar(goString(fr, args[0]), 32), true
	case "vNondetInt", "vNondetInt64", "vNondetUint64", "vNondetUint":
		return in.freshVar(goString(fr, args[0]), 64), true
	case "vNondetLen", "vNondetRange":
		lo := in.concOrFail(args[1], "vNondetLen lo")
		hi := in.concOrFail(args[2], "vNondetLen hi")
		t := in.freshVar(goString(fr, args[0]), 64)
		in.assume(ts.And(ts.Cmp(OpSLe, ts.BVi(lo, 64), t), ts.Cmp(OpSLe, t, ts.BVi(hi, 64))))
		if name == "vNondetRange" {
			return t, true
		}
		v, ok := in.concInt(t, true, lo, hi, "nondet-len")
		if !ok {
			panic(pathAbort{kind: "infeasible"})
		}
		return ts.BVi(v, 64), true
	case "vNondetBytes":
		n := in.concOrFail(args[1], "vNondetBytes length")
		nm := goString(fr, args[0])
		out := make([]value, n)
		for i := range out {
			out[i] = in.freshVar(nm, 8)
		}
		return out, true
	case "vParam":
		nm := goString(fr, args[0])
		def := in.concOrFail(args[1], "vParam default")
		if v, ok := in.params[nm]; ok {
			return ts.BVi(v, 64), true
		}
		return ts.BVi(def, 64), true
	case "vAssume":
		c := in.asTerm(args[0], "vAssume")
		in.assume(c)
		return nil, true
	case "vAssert":
		in.assertion(fr, in.asTerm(args[0], "vAssert"), goString(fr, args[1]))
		return nil, true
	case "vReach":
		in.reach(goString(fr, args[0]))
		return nil, true
	case "vObserve":
		return nil, true
	case "vSymbolic":
		return ts.True, true
	case "vConcretize":
		// vConcretize(x int, lo, hi) forks x into its concrete values
		lo := in.concOrFail(args[1], "lo")
		hi := in.concOrFail(args[2], "hi")
		t := in.asTerm(args[0], "vConcretize")
		v, ok := in.concInt(t, true, lo, hi, "concretize")
		if !ok {
			panic(pathAbort{kind: "assume"})
		}
		return ts.BVi(v, 64), true
	case "vUF", "vUFInj":
		// vUF(name string, outLen int, args ...[]byte) []byte
		nm := goString(fr, args[0])
		n := in.concOrFail(args[1], "vUF outLen")
		var ins []value
		if a, ok := args[2].([]value); ok {
			ins = a
		}
		res := in.ufApply(nm, name == "vUFInj", ins, func() value {
			out := make([]value, n)
			for i := range out {
				out[i] = in.freshVar("uf."+nm, 8)
			}
			return out
		})
		return copySlice(res), true
	case "vSelectBytes":
		// vSelectBytes(k int, pool [][]byte, other []byte) []byte : pool[k] if 0<=k<len(pool), else other (no fork)
		k := in.norm64(in.asTerm(args[0], "vSelectBytes index"), true)
		pool, _ := args[1].([]value)
		other, _ := args[2].([]value)
		out := make([]value, len(other))
		for b := range other {
			r := in.asTerm(other[b], "byte")
			for j := len(pool) - 1; j >= 0; j-- {
				pj, _ := pool[j].([]value)
				if len(pj) != len(other) {
					in.unsupported("vSelectBytes: pool entries must have the length of the default")
				}
				r = ts.Ite(ts.Eq(k, ts.BVi(int64(j), 64)), in.asTerm(pj[b], "byte"), r)
			}
			out[b] = r
		}
		return out, true
	case "vImplies":
		return ts.Or(ts.Not(in.asTerm(args[0], "vImplies")), in.asTerm(args[1], "vImplies")), true
	case "vAnd":
		return ts.And(in.asTerm(args[0], "vAnd"), in.asTerm(args[1], "vAnd")), true
	case "vOr":
		return ts.Or(in.asTerm(args[0], "vOr"), in.asTerm(args[1], "vOr")), true
	case "vIteInt64":
		return ts.Ite(in.asTerm(args[0], "vIte"), in.asTerm(args[1], "vIte"), in.asTerm(args[2], "vIte")), true
	case "vJSONBind":
		// vJSONBind(msg []byte, o interface{}): decoding msg yields (a copy of) *o
		m, _ := args[0].([]value)
		if len(m) == 0 {
			in.unsupported("vJSONBind: empty message")
		}
		jb := jsonBind{first: in.asTerm(m[0], "vJSONBind byte"), n: len(m), obj: args[1]}
		for _, e := range m {
			jb.all = append(jb.all, in.asTerm(e, "vJSONBind byte"))
		}
		in.jsonBinds = append(in.jsonBinds, jb)
		return nil, true
	case "vSetStub":
		// vSetStub(nameContains string, results ...interface{}): the next calls of a by-name stub of
		// kind "harness" whose name contains nameContains return these results
		sub := goString(fr, args[0])
		var res []value
		if a, ok := args[1].([]value); ok {
			res = a
		}
		in.harnessStubs[sub] = res
		delete(in.harnessCursor, sub)
		return nil, true
	case "vStubCalls":
		// number of calls so far on this path of by-name stubbed functions whose name contains the argument
		sub := goString(fr, args[0])
		n := 0
		for k, c := range in.stubCalls {
			if strings.Contains(k, sub) {
				n += c
			}
		}
		return ts.BVi(int64(n), 64), true
	case "vStubArgString":
		// vStubArgString(nameContains, k, arg): the concrete string passed as argument `arg` (receiver = 0)
		// of the k-th call on this path of a by-name stubbed function whose name contains nameContains; ""
		// when there is no such call or the argument is not a concrete string
		sub := goString(fr, args[0])
		k, ai := int(in.concOrFail(args[1], "vStubArgString call index")), int(in.concOrFail(args[2], "vStubArgString argument index"))
		for _, c := range in.stubLog {
			if !strings.Contains(c.name, sub) {
				continue
			}
			if k > 0 {
				k--
				continue
			}
			if ai >= 0 && ai < len(c.args) {
				if str, ok := c.args[ai].(string); ok {
					return str, true
				}
			}
			return "", true
		}
		return "", true
	case "vEvent":
		in.event("harness", goString(fr, args[0]))
		return nil, true
	}
	return nil, false
}

func copySlice(v value) value {
	if s, ok := v.([]value); ok {
		return append([]value{}, s...)
	}
	return v
}

// ---------------------------------------------------------------------------
// Ackermannised uninterpreted functions

type ufApp struct {
	sig      string
	terms    []*Term
	res      value
	rsig     string
	rts      []*Term
	concrete bool // all arguments (hence the result) are constants
}

// flatten reduces a value to a shape signature and a list of scalar terms.
func (in *interp) flatten(v value, sig *strings.Builder, out *[]*Term, depth int) {
	switch x := v.(type) {
	case *Term:
		fmt.Fprintf(sig, "t%d;", x.w)
		*out = append(*out, x)
	case string:
		fmt.Fprintf(sig, "s%d;", len(x))
		*out = append(*out, in.strBytes(x)...)
	case symstr:
		fmt.Fprintf(sig, "s%d;", len(x))
		*out = append(*out, x...)
	case float64:
		fmt.Fprintf(sig, "f%v;", x)
	case []value:
		if x == nil {
			sig.WriteString("l0;") // nil and empty slices hash alike
			return
		}
		fmt.Fprintf(sig, "l%d;", len(x))
		for _, e := range x {
			in.flatten(e, sig, out, depth+1)
		}
	case structure:
		sig.WriteString("{")
		for _, e := range x {
			in.flatten(e, sig, out, depth+1)
		}
		sig.WriteString("}")
	case array:
		fmt.Fprintf(sig, "a%d[", len(x))
		for _, e := range x {
			in.flatten(e, sig, out, depth+1)
		}
		sig.WriteString("]")
	case iface:
		if x.t == nil {
			sig.WriteString("nil;")
			return
		}
		sig.WriteString("I" + x.t.String() + ":")
		in.flatten(x.v, sig, out, depth+1)
	case *value:
		if x == nil {
			sig.WriteString("nilp;")
			return
		}
		if depth > 6 {
			fmt.Fprintf(sig, "p%p;", x)
			return
		}
		sig.WriteString("&")
		in.flatten(*x, sig, out, depth+1)
	case *smap:
		if x == nil {
			sig.WriteString("nilm;")
			return
		}
		fmt.Fprintf(sig, "m%d(", len(x.entries))
		for _, e := range x.entries {
			in.flatten(e.k, sig, out, depth+1)
			in.flatten(e.v, sig, out, depth+1)
		}
		sig.WriteString(")")
	case nil:
		sig.WriteString("nil;")
	case tuple:
		sig.WriteString("(")
		for _, e := range x {
			in.flatten(e, sig, out, depth+1)
		}
		sig.WriteString(")")
	case *schan:
		fmt.Fprintf(sig, "ch%p;", x) // a channel is identified by its identity
	case *ssa.Function, *closure:
		sig.WriteString("fn;")
	case opaque:
		in.unsupported("opaque value as UF argument: " + x.why)
	default:
		in.unsupported(fmt.Sprintf("UF argument of kind %T", v))
	}
}

func (in *interp) ufApply(name string, injective bool, args []value, mkRes func() value) value {
	var sb strings.Builder
	var terms []*Term
	for _, a := range args {
		in.flatten(a, &sb, &terms, 0)
		sb.WriteString("|")
	}
	sig := sb.String()
	ts := in.ts
	apps := in.ufApps[name]
	// structurally identical application: reuse the result
	for _, p := range apps {
		if p.sig == sig && sameTerms(p.terms, terms) {
			return p.res
		}
	}
	res := mkRes()
	// all arguments concrete: the result is a concrete pseudo-random value (a digest of the function
	// name and the arguments) instead of fresh variables tied to every other application by pairwise
	// constraints — the same function, consistent by construction, and constant-foldable
	allConst := true
	for _, t := range terms {
		if !t.IsConst() {
			allConst = false
			break
		}
	}
	if allConst {
		var seed strings.Builder
		seed.WriteString(name + "|" + sig + "|")
		for _, t := range terms {
			fmt.Fprintf(&seed, "%x.", t.Big())
		}
		ctr := 0
		var pool []byte
		next := func(w int) *Term {
			nb := (w + 7) / 8
			for len(pool) < nb {
				d := sha256.Sum256([]byte(fmt.Sprintf("%s#%d", seed.String(), ctr)))
				ctr++
				pool = append(pool, d[:]...)
			}
			v := new(big.Int).SetBytes(pool[:nb])
			pool = pool[nb:]
			if w%8 != 0 {
				v.And(v, new(big.Int).Sub(new(big.Int).Lsh(big.NewInt(1), uint(w)), big.NewInt(1)))
			}
			return ts.BigBV(v, w)
		}
		res = in.constLike(res, next)
	}
	var rsb strings.Builder
	var rts []*Term
	in.flatten(res, &rsb, &rts, 0)
	app := &ufApp{sig: sig, terms: terms, res: res, rsig: rsb.String(), rts: rts, concrete: allConst}
	for _, p := range apps {
		if allConst && p.concrete {
			continue // two concrete applications: their digests already agree / differ as they must
		}
		reseq := ts.True
		for i := range rts {
			reseq = ts.And(reseq, ts.Eq(rts[i], p.rts[i]))
		}
		if p.sig != sig {
			if injective {
				in.assumeNoCheck(ts.Not(reseq))
			}
			continue
		}
		argeq := ts.True
		for i := range terms {
			argeq = ts.And(argeq, ts.Eq(terms[i], p.terms[i]))
		}
		in.assumeNoCheck(ts.Implies(argeq, reseq))
		if injective {
			in.assumeNoCheck(ts.Implies(reseq, argeq))
		}
	}
	in.ufApps[name] = append(apps, app)
	in.ufCount++
	return res
}

// constLike rebuilds a (fresh, symbolic) result value with constants drawn from next
func (in *interp) constLike(v value, next func(w int) *Term) value {
	switch x := v.(type) {
	case *Term:
		if x.w == 0 { // Bool
			return v
		}
		return next(x.w)
	case symstr:
		out := make(symstr, len(x))
		for i := range x {
			out[i] = next(8)
		}
		return out
	case []value:
		if x == nil {
			return x
		}
		out := make([]value, len(x))
		for i, e := range x {
			out[i] = in.constLike(e, next)
		}
		return out
	case structure:
		out := make(structure, len(x))
		for i, e := range x {
			out[i] = in.constLike(e, next)
		}
		return out
	case array:
		out := make(array, len(x))
		for i, e := range x {
			out[i] = in.constLike(e, next)
		}
		return out
	case tuple:
		out := make(tuple, len(x))
		for i, e := range x {
			out[i] = in.constLike(e, next)
		}
		return out
	case iface:
		if x.t == nil {
			return x
		}
		return iface{t: x.t, v: in.constLike(x.v, next)}
	}
	return v
}

func sameTerms(a, b []*Term) bool {
	if len(a) != len(b) {
		return false
	}
	for i := range a {
		if a[i] != b[i] {
			return false
		}
	}
	return true
}

// freshOfType builds an unconstrained symbolic value of a result type.
func (in *interp) freshOfType(t types.Type, name string, byteLen int) value {
	switch u := t.Underlying().(type) {
	case *types.Basic:
		if w, _, ok := basicWidth(u); ok {
			return in.freshVar(name, w)
		}
		if u.Info()&types.IsString != 0 {
			bs := make([]*Term, byteLen)
			for i := range bs {
				bs[i] = in.freshVar(name, 8)
			}
			return in.mkStr(bs)
		}
	case *types.Slice:
		if eb, ok := u.Elem().Underlying().(*types.Basic); ok && eb.Kind() == types.Uint8 {
			out := make([]value, byteLen)
			for i := range out {
				out[i] = in.freshVar(name, 8)
			}
			return out
		}
	case *types.Array:
		out := make(array, u.Len())
		for i := range out {
			out[i] = in.freshOfType(u.Elem(), name, byteLen)
		}
		return out
	case *types.Struct:
		out := make(structure, u.NumFields())
		for i := range out {
			out[i] = in.freshOfType(u.Field(i).Type(), name, byteLen)
		}
		return out
	case *types.Interface:
		return iface{} // e.g. error: nil
	case *types.Pointer, *types.Map, *types.Chan, *types.Signature:
		return in.zero(t)
	}
	in.unsupported(fmt.Sprintf("stub result of type %v", t))
	return nil
}

// runStub implements the by-name stub kinds.
func (in *interp) runStub(fr *frame, fi *fnInfo, args []value) value {
	res := fi.fn.Signature.Results()
	kind := fi.stub
	in.stubsUsed[fi.name+" => "+kind]++
	in.stubCalls[fi.name]++
	in.stubLog = append(in.stubLog, stubCallRec{fi.name, args})
	mk := func(f func(t types.Type, i int) value) value {
		switch res.Len() {
		case 0:
			return nil
		case 1:
			return f(res.At(0).Type(), 0)
		}
		t := make(tuple, res.Len())
		for i := range t {
			t[i] = f(res.At(i).Type(), i)
		}
		return t
	}
	parts := strings.Split(kind, ":")
	if parts[0] == "injsel" && len(parts) >= 4 {
		// injsel:<N>:<TypeSubstring>:<field index>: like inj, but an argument that is (an interface
		// holding) a pointer to a struct whose type name contains TypeSubstring is replaced by that one
		// field of the struct — the part of the object the encoding really depends on
		fld := 0
		fmt.Sscan(parts[3], &fld)
		sel := make([]value, len(args))
		for i, a := range args {
			sel[i] = a
			v, tname := a, ""
			if it, ok := a.(iface); ok && it.t != nil {
				v, tname = it.v, it.t.String()
			}
			if p, ok := v.(*value); ok && p != nil {
				if st, ok := (*p).(structure); ok && fld < len(st) && (tname == "" || strings.Contains(tname, parts[2])) {
					sel[i] = st[fld]
				}
			}
		}
		args = sel
		parts = []string{"inj", parts[1]}
	}
	switch parts[0] {
	case "clock":
		// time.Now as a concrete, strictly increasing clock (for harnesses whose subject is not time:
		// symbolic instants make every Duration computation a 64-bit multiplication the solvers choke on)
		in.clock++
		return structure{in.ts.BV(0, 64), in.ts.BV(uint64(1600000000+in.clock), 64), (*value)(nil)}
	case "noop":
		return mk(func(t types.Type, i int) value { return in.zero(t) })
	case "opaque":
		return mk(func(t types.Type, i int) value { return opaque{"stubbed " + fi.name} })
	case "nondet":
		n := 2
		if len(parts) > 1 {
			fmt.Sscan(parts[1], &n)
		}
		return mk(func(t types.Type, i int) value { return in.freshOfType(t, "stub."+fi.name, n) })
	case "inj":
		// injective function of the arguments: a concrete canonical rendering when they are
		// concrete, otherwise an injective UF
		var sb strings.Builder
		var terms []*Term
		for _, a := range args {
			in.flatten(a, &sb, &terms, 0)
		}
		allc := true
		for _, t := range terms {
			if !t.IsConst() {
				allc = false
				break
			}
		}
		if allc {
			for _, t := range terms {
				fmt.Fprintf(&sb, "%x.", t.Big())
			}
			out := []value{}
			for _, c := range []byte(sb.String()) {
				out = append(out, in.ts.BV(uint64(c), 8))
			}
			return mk(func(t types.Type, i int) value {
				if _, isSlice := t.Underlying().(*types.Slice); isSlice {
					return append([]value{}, out...)
				}
				if isString(t) {
					return sb.String()
				}
				if at, isArr := t.Underlying().(*types.Array); isArr {
					// fixed-size result (an address / hash): a digest of the canonical rendering
					sum := sha256.Sum256([]byte(sb.String()))
					arr := make(array, at.Len())
					for k := range arr {
						arr[k] = in.ts.BV(uint64(sum[k%32]), 8)
					}
					return arr
				}
				return in.zero(t)
			})
		}
		parts[0] = "ufinj"
		fallthrough
	case "uf", "ufinj":
		n := 20
		if len(parts) > 1 {
			fmt.Sscan(parts[1], &n)
		}
		r := in.ufApply(fi.name, parts[0] == "ufinj", args, func() value {
			return mk(func(t types.Type, i int) value { return in.freshOfType(t, "uf."+fi.name, n) })
		})
		return copyDeep(r)
	case "redirect":
		// redirect:<function name>: call another function (usually a harness function) with the same arguments
		target := strings.Join(parts[1:], ":")
		tf := in.lookupFunc(target)
		if tf == nil {
			in.unsupported("redirect target not found: " + target)
		}
		return in.callSSA(fr, 0, tf, args, nil)
	case "injfield":
		// injfield:<N>:<field>: injective function of field <field> of the struct the first argument points to
		n, fld := 32, 0
		fmt.Sscan(parts[1], &n)
		if len(parts) > 2 {
			fmt.Sscan(parts[2], &fld)
		}
		p, ok := args[0].(*value)
		if !ok || p == nil {
			in.rtPanic(fr.caller, "invalid memory address or nil pointer dereference")
		}
		st, ok := (*p).(structure)
		if !ok {
			in.unsupported("injfield: receiver is not a struct pointer")
		}
		r := in.ufApply(fi.name, true, []value{st[fld]}, func() value {
			return mk(func(t types.Type, i int) value { return in.freshOfType(t, "uf."+fi.name, n) })
		})
		return copyDeep(r)
	case "harness":
		for sub, vals := range in.harnessStubs {
			if !strings.Contains(fi.name, sub) {
				continue
			}
			// more values than the function has results: successive calls take successive groups (a
			// scripted sequence, e.g. the lines a reader returns); the last group repeats
			k := 0
			if n := res.Len(); n > 0 && len(vals) > n {
				g := in.harnessCursor[sub]
				if (g+1)*n > len(vals) {
					g = len(vals)/n - 1
				} else {
					in.harnessCursor[sub] = g + 1
				}
				k = g * n
			}
			return mk(func(t types.Type, i int) value {
				if k >= len(vals) {
					in.unsupported("harness stub " + fi.name + ": too few results registered")
				}
				v := vals[k]
				k++
				it, ok := v.(iface)
				if !ok {
					return v
				}
				if _, isIface := t.Underlying().(*types.Interface); isIface {
					return it // result is itself an interface value
				}
				if it.t == nil {
					return in.zero(t)
				}
				return it.v
			})
		}
		in.unsupported("harness stub " + fi.name + ": no results registered (vSetStub)")
		return nil
	case "jsonmarshal":
		// func Marshal(v interface{}) ([]byte, error): fresh bytes that Unmarshal (jsonbind) maps back to a copy of v
		it, ok := args[0].(iface)
		if !ok || it.t == nil {
			in.unsupported("jsonmarshal: nil value")
		}
		out := make([]value, 2)
		for i := range out {
			out[i] = in.freshVar("json", 8)
		}
		var cell value = copyVal(it.v)
		objT := it.t
		var obj value = iface{t: types.NewPointer(objT), v: &cell}
		if _, isPtr := objT.Underlying().(*types.Pointer); isPtr {
			obj = it // already a pointer: decoding yields the pointee
		}
		in.jsonBinds = append(in.jsonBinds, jsonBind{first: out[0].(*Term), n: len(out), obj: obj})
		return tuple{out, iface{}}
	case "arg0":
		return args[0]
	case "jsonbind":
		// func Unmarshal(data []byte, v interface{}) error : v receives the object bound to data by vJSONBind
		data, _ := args[0].([]value)
		dst, ok := args[1].(iface)
		if len(data) > 0 && ok {
			for _, b := range in.jsonBinds {
				if b.first != data[0] || b.n != len(data) {
					continue
				}
				src, ok2 := b.obj.(iface)
				if !ok2 || !sameType(src.t, dst.t) {
					break
				}
				sp, _ := src.v.(*value)
				dp, _ := dst.v.(*value)
				if sp == nil || dp == nil {
					break
				}
				store(deref(dst.t), dp, load(deref(src.t), sp))
				return iface{}
			}
		}
		return in.makeError("stubbed json.Unmarshal: no object bound to these bytes")
	case "readjsonbind":
		// go-wire ReadJSON(o interface{}, bytes []byte, err *error) interface{} : *o receives the object bound
		// to these bytes by vJSONBind (concrete bytes are matched by content), otherwise *err is set
		data, _ := args[1].([]value)
		dst, ok := args[0].(iface)
		if len(data) > 0 && ok {
			for _, b := range in.jsonBinds {
				if b.n != len(data) {
					continue
				}
				same := b.first == data[0]
				if same && len(b.all) == len(data) {
					for i := range data {
						if b.all[i] != data[i] {
							same = false
							break
						}
					}
				}
				if !same {
					continue
				}
				src, ok2 := b.obj.(iface)
				if !ok2 || !sameType(src.t, dst.t) {
					break
				}
				sp, _ := src.v.(*value)
				dp, _ := dst.v.(*value)
				if sp == nil || dp == nil {
					break
				}
				store(deref(dst.t), dp, load(deref(src.t), sp))
				return args[0]
			}
		}
		if ep, ok := args[2].(*value); ok && ep != nil {
			*ep = in.makeError("stubbed ReadJSON: no object bound to these bytes")
		}
		return args[0]
	case "edverify":
		// idealised ed25519.Verify(pub *[32]byte, msg []byte, sig *[64]byte): the signature says whether it
		// is valid (byte 0 == 1) and which key made it (byte 2 == first byte of the public key)
		pp, _ := args[0].(*value)
		sp, _ := args[2].(*value)
		if pp == nil || sp == nil {
			in.rtPanic(fr.caller, "invalid memory address or nil pointer dereference")
		}
		pub, sig := (*pp).(array), (*sp).(array)
		return in.ts.And(in.ts.Eq(in.asTerm(sig[0], "sig"), in.ts.BV(1, 8)), in.ts.Eq(in.asTerm(sig[2], "sig"), in.asTerm(pub[0], "pub")))
	case "argbyte":
		// argbyte:<arg>:<index>:<value> : result = (arg[index] == value)
		var ai, bi, bv int
		fmt.Sscan(parts[1], &ai)
		fmt.Sscan(parts[2], &bi)
		fmt.Sscan(parts[3], &bv)
		a := args[ai]
		if p, ok := a.(*value); ok && p != nil {
			a = *p
		}
		var el value
		switch x := a.(type) {
		case array:
			el = x[bi]
		case []value:
			if bi >= len(x) {
				return in.ts.False
			}
			el = x[bi]
		default:
			in.unsupported("argbyte: unexpected argument shape")
		}
		return in.ts.Eq(in.asTerm(el, "argbyte"), in.ts.BV(uint64(bv), 8))
	case "errif-prefix":
		// func(path string, ...) error : fails iff path starts with the given prefix
		path, ok := args[0].(string)
		if !ok {
			in.unsupported("errif-prefix: path must be concrete")
		}
		// several prefixes may be given, separated by '|'. The error text imitates
		// go-common.WriteFileAtomic: a prefix containing "bak" fails in the backup stage (".bak"),
		// any other in the stage that writes the new content (".new")
		for _, pre := range strings.Split(strings.Join(parts[1:], ":"), "|") {
			if pre != "" && strings.HasPrefix(path, pre) {
				stage := ".new"
				if strings.Contains(pre, "bak") {
					stage = ".bak"
				}
				return in.makeError("Could not write file " + path + stage + ". stubbed write failure")
			}
		}
		return iface{}
	case "ufwrite":
		// f(o interface{}, w io.Writer, n *int, err *error): write an injective UF of o to w
		n := 8
		if len(parts) > 1 {
			fmt.Sscan(parts[1], &n)
		}
		r := in.ufApply(fi.name, true, args[:1], func() value {
			out := make([]value, n)
			for i := range out {
				out[i] = in.freshVar("uf."+fi.name, 8)
			}
			return out
		})
		w, ok := args[1].(iface)
		if !ok || w.t == nil {
			in.unsupported("ufwrite: writer is not an interface value")
		}
		wf := in.findMethod(w.t, "Write")
		if wf == nil {
			in.unsupported("ufwrite: writer has no Write method")
		}
		in.callSSA(fr, 0, wf, []value{w.v, copySlice(r)}, nil)
		if p, ok := args[2].(*value); ok && p != nil {
			*p = in.ts.Bin(OpAdd, in.asTerm(*p, "n"), in.ts.BVi(int64(n), 64))
		}
		return nil
	case "true":
		return in.ts.True
	case "false":
		return in.ts.False
	case "unsupported":
		in.unsupported("call of " + fi.name + " (declared out of scope for this harness)")
	}
	in.unsupported("unknown stub kind " + kind)
	return nil
}

func copyDeep(v value) value {
	switch x := v.(type) {
	case []value:
		if x == nil {
			return x
		}
		out := make([]value, len(x))
		for i := range x {
			out[i] = copyDeep(x[i])
		}
		return out
	case tuple:
		out := make(tuple, len(x))
		for i := range x {
			out[i] = copyDeep(x[i])
		}
		return out
	case structure, array:
		return copyVal(v)
	}
	return v
}

func sortedKeys(m map[string]int) []string {
	var ks []string
	for k := range m {
		ks = append(ks, k)
	}
	sort.Strings(ks)
	return ks
}

package main

// gosmt: symbolic execution of Go SSA (built from /repo's current working tree
// plus overlay harness files) with an SMT solver deciding every branch,
// assertion and reachability query.
//
//	gosmt -spec spec.json -out result.json

import (
	"encoding/json"
	"flag"
	"fmt"
	"go/types"
	"io"
	"os"
	"path/filepath"
	"regexp"
	"runtime"
	"sort"
	"strings"
	"sync"
	"time"

	"golang.org/x/tools/go/packages"
	"golang.org/x/tools/go/ssa"
	"golang.org/x/tools/go/ssa/ssautil"
)

type HarnessSpec struct {
	ID            string            `json:"id"`
	Name          string            `json:"name"`
	Pkg           string            `json:"pkg"`
	Params        map[string]int64  `json:"params"`
	Unwind        int               `json:"unwind"`
	TimeoutMs     int               `json:"timeout_ms"`
	BudgetS       int               `json:"budget_s"`
	MaxPaths      int               `json:"max_paths"`
	MaxSteps      int               `json:"max_steps"`
	MaxFork       int               `json:"max_fork"`
	SymAlloc      int               `json:"max_sym_alloc"`
	Stubs         map[string]string `json:"stubs"`
	GoSync        []string          `json:"go_sync"`
	GoDrop        []string          `json:"go_drop"`
	MapRotate     []string          `json:"map_rotate"`      // functions (regex) whose map ranges start at an arbitrary entry
	BlockedSendOK bool              `json:"blocked_send_ok"` // a send on a full channel waits for a live consumer (fine unless a mutex is held)
	Trace         bool              `json:"trace"`
	FallbackMs    int               `json:"fallback_ms"`
	FmtCalls      bool              `json:"fmt_calls"`
}

type Spec struct {
	Property  string            `json:"property"`
	Repo      string            `json:"repo"`
	Overlays  map[string]string `json:"overlays"` // virtual path -> real file
	Packages  []string          `json:"packages"` // patterns relative to Repo
	ExtraPkgs []string          `json:"extra_packages"`
	Harnesses []*HarnessSpec    `json:"harnesses"`
	Stubs     map[string]string `json:"stubs"`
	GoSync    []string          `json:"go_sync"`
	GoDrop    []string          `json:"go_drop"`
	SkipInit  []string          `json:"skip_init"`
	Solver    string            `json:"solver"`
	Workers   int               `json:"workers"`
	BuildTags []string          `json:"build_tags"`
	Cgo       bool              `json:"cgo"`
}

type stubRule struct {
	re   *regexp.Regexp
	kind string
}

type Config struct {
	rules         []stubRule
	goSync        []*regexp.Regexp
	goDrop        []*regexp.Regexp
	mapRot        []*regexp.Regexp
	blockedSendOK bool
	skipInit      map[string]bool
}

// default noise stubs: logging and printing never matter to a property here
var defaultStubs = map[string]string{
	`^golang.org/x/crypto/sha3\.xorInUnaligned$`:                     "redirect:golang.org/x/crypto/sha3.xorInGeneric",
	`^golang.org/x/crypto/sha3\.copyOutUnaligned$`:                   "redirect:golang.org/x/crypto/sha3.copyOutGeneric",
	`^math/big\.addVV$`:                                              "redirect:math/big.addVV_g",
	`^math/big\.subVV$`:                                              "redirect:math/big.subVV_g",
	`^math/big\.addVW$`:                                              "redirect:math/big.addVW_g",
	`^math/big\.subVW$`:                                              "redirect:math/big.subVW_g",
	`^math/big\.shlVU$`:                                              "redirect:math/big.shlVU_g",
	`^math/big\.shrVU$`:                                              "redirect:math/big.shrVU_g",
	`^math/big\.mulAddVWW$`:                                          "redirect:math/big.mulAddVWW_g",
	`^math/big\.addMulVVW$`:                                          "redirect:math/big.addMulVVW_g",
	`^\(\*?go\.uber\.org/zap\.`:                                      "noop",
	`^go\.uber\.org/zap\.`:                                           "opaque",
	`^\(\*?go\.uber\.org/zap/zapcore\.`:                              "noop",
	`^github\.com/dappledger/AnnChain/gemmill/go-utils/.*/log\.`:     "noop",
	`^\(\*?log\.Logger\)\.`:                                          "noop",
	`^log\.(Print|Fatal|Panic)`:                                      "noop",
	`^github\.com/dappledger/AnnChain/eth/log\.`:                     "noop",
	`^\(\*?github\.com/dappledger/AnnChain/eth/log\.`:                "noop",
	`^github\.com/dappledger/AnnChain/gemmill/modules/go-log\.`:      "noop",
	`^\(\*?github\.com/dappledger/AnnChain/gemmill/modules/go-log\.`: "noop",
}

func compileCfg(spec *Spec, h *HarnessSpec) (*Config, error) {
	c := &Config{skipInit: map[string]bool{}}
	add := func(m map[string]string) error {
		keys := make([]string, 0, len(m))
		for k := range m {
			keys = append(keys, k)
		}
		sort.Strings(keys)
		for _, k := range keys {
			re, err := regexp.Compile(k)
			if err != nil {
				return fmt.Errorf("stub pattern %q: %v", k, err)
			}
			c.rules = append(c.rules, stubRule{re, m[k]})
		}
		return nil
	}
	// harness rules take precedence over spec rules over defaults
	if err := add(h.Stubs); err != nil {
		return nil, err
	}
	if err := add(spec.Stubs); err != nil {
		return nil, err
	}
	if err := add(defaultStubs); err != nil {
		return nil, err
	}
	for _, p := range append(append([]string{}, spec.GoSync...), h.GoSync...) {
		c.goSync = append(c.goSync, regexp.MustCompile(p))
	}
	for _, p := range append(append([]string{}, spec.GoDrop...), h.GoDrop...) {
		c.goDrop = append(c.goDrop, regexp.MustCompile(p))
	}
	c.blockedSendOK = h.BlockedSendOK
	for _, p := range h.MapRotate {
		c.mapRot = append(c.mapRot, regexp.MustCompile(p))
	}
	for _, p := range spec.SkipInit {
		c.skipInit[p] = true
	}
	return c, nil
}

func (c *Config) stubFor(name string, fn *ssa.Function) (string, bool) {
	for _, r := range c.rules {
		if r.re.MatchString(name) {
			if r.kind == "real" {
				return "", false
			}
			return r.kind, true
		}
	}
	return "", false
}

func (c *Config) mapRotate(name string) bool {
	for _, r := range c.mapRot {
		if r.MatchString(name) {
			return true
		}
	}
	return false
}

func (c *Config) goPolicy(name string) string {
	for _, r := range c.goSync {
		if r.MatchString(name) {
			return "sync"
		}
	}
	for _, r := range c.goDrop {
		if r.MatchString(name) {
			return "drop"
		}
	}
	return "refuse"
}

type Output struct {
	Property  string           `json:"property"`
	LoadS     float64          `json:"load_s"`
	WallS     float64          `json:"wall_s"`
	Functions int              `json:"ssa_functions"`
	Harnesses []*HarnessResult `json:"harnesses"`
	Error     string           `json:"error,omitempty"`
	Solver    string           `json:"solver"`
	GoFiles   int              `json:"go_files_loaded"`
}

func fail(out *Output, outPath string, format string, a ...interface{}) {
	out.Error = fmt.Sprintf(format, a...)
	writeOut(out, outPath)
	fmt.Fprintln(os.Stderr, "gosmt:", out.Error)
	os.Exit(2)
}

func writeOut(out *Output, path string) {
	b, _ := json.MarshalIndent(out, "", " ")
	if path == "" || path == "-" {
		os.Stdout.Write(b)
		return
	}
	os.WriteFile(path, b, 0o644)
}

func main() {
	specPath := flag.String("spec", "", "spec JSON")
	outPath := flag.String("out", "-", "result JSON")
	only := flag.String("only", "", "run only harnesses matching this regexp")
	trace := flag.Bool("trace", false, "trace calls")
	smtlog := flag.String("smtlog", "", "write solver dialogue to this file (single worker)")
	flag.Parse()
	t0 := time.Now()
	out := &Output{}
	raw, err := os.ReadFile(*specPath)
	if err != nil {
		fail(out, *outPath, "read spec: %v", err)
	}
	var spec Spec
	if err := json.Unmarshal(raw, &spec); err != nil {
		fail(out, *outPath, "parse spec: %v", err)
	}
	out.Property = spec.Property
	out.Solver = spec.Solver
	if spec.Solver == "" {
		out.Solver = "z3"
	}

	repoRoot = strings.TrimRight(spec.Repo, "/")
	overlay := map[string][]byte{}
	for virt, real := range spec.Overlays {
		b, err := os.ReadFile(real)
		if err != nil {
			fail(out, *outPath, "overlay %s: %v", real, err)
		}
		overlay[virt] = b
	}
	cfg := &packages.Config{
		Mode:    packages.LoadAllSyntax,
		Dir:     spec.Repo,
		Overlay: overlay,
		Env:     append(os.Environ(), "GOFLAGS=-mod=mod", "GOPROXY=off", "GOSUMDB=off", "GOTOOLCHAIN=local", "CGO_ENABLED=0"),
	}
	if spec.Cgo {
		cfg.Env = append(cfg.Env, "CGO_ENABLED=1")
	}
	if len(spec.BuildTags) > 0 {
		cfg.BuildFlags = []string{"-tags=" + strings.Join(spec.BuildTags, ",")}
	}
	pats := append(append([]string{}, spec.Packages...), spec.ExtraPkgs...)
	pkgs, err := packages.Load(cfg, pats...)
	if err != nil {
		fail(out, *outPath, "load: %v", err)
	}
	nerr := 0
	var firstErr string
	packages.Visit(pkgs, nil, func(p *packages.Package) {
		out.GoFiles += len(p.GoFiles)
		for _, e := range p.Errors {
			// errors in the packages under test are fatal; cgo noise in deps is tolerated only if outside the repo module
			if strings.Contains(p.PkgPath, "dappledger/AnnChain") || len(p.Errors) > 0 && isRoot(pkgs, p) {
				nerr++
				if firstErr == "" {
					firstErr = fmt.Sprintf("%s: %v", p.PkgPath, e)
				}
			}
		}
	})
	if nerr > 0 {
		fail(out, *outPath, "%d type/load errors, first: %s", nerr, firstErr)
	}
	prog, spkgs := ssautil.AllPackages(pkgs, ssa.InstantiateGenerics|ssa.SanityCheckFunctions&0)
	prog.Build()
	out.LoadS = time.Since(t0).Seconds()
	_ = spkgs
	nf := 0
	for range ssautil.AllFunctions(prog) {
		nf++
	}
	out.Functions = nf

	var onlyRe *regexp.Regexp
	if *only != "" {
		onlyRe = regexp.MustCompile(*only)
	}
	var todo []*HarnessSpec
	for _, h := range spec.Harnesses {
		if onlyRe == nil || onlyRe.MatchString(h.Name) {
			todo = append(todo, h)
		}
	}
	workers := spec.Workers
	if workers <= 0 {
		workers = runtime.NumCPU()
	}
	pl := newPool(workers)
	var hss []*hstate
	results := make([]*HarnessResult, len(todo))
	for i, h := range todo {
		if h.ID == "" {
			h.ID = h.Name
		}
		fn := findFunc(prog, h.Pkg, h.Name)
		if fn == nil {
			results[i] = &HarnessResult{ID: h.ID, Name: h.Name, Pkg: h.Pkg, Params: h.Params, Queries: map[string]int{}, Outcomes: map[string]int{},
				Inconclusive: []string{"harness function not found: " + h.Pkg + "." + h.Name}}
			hss = append(hss, nil)
			continue
		}
		budget := time.Duration(h.BudgetS) * time.Second
		if budget == 0 {
			budget = 30 * time.Minute // generous: harnesses share the worker pool and the machine may be loaded
		}
		hs := &hstate{spec: h, fn: fn, budget: budget}
		hss = append(hss, hs)
	}
	// cheap-first order is unknown; queue all roots, workers take them FIFO
	for _, hs := range hss {
		if hs != nil {
			pl.put(&job{hs: hs})
		}
	}
	var wg sync.WaitGroup
	for w := 0; w < workers; w++ {
		wg.Add(1)
		go func(w int) {
			defer wg.Done()
			mine := map[*hstate]*interp{}
			var order []*hstate
			for {
				j := pl.get()
				if j == nil {
					break
				}
				hs := j.hs
				in := mine[hs]
				if in == nil {
					// keep at most 3 live solvers per worker
					for len(order) >= 3 {
						old := order[0]
						order = order[1:]
						mine[old].solver.Close()
					}
					var err error
					in, err = newInterp(prog, &spec, hs.spec, *trace || hs.spec.Trace, *smtlog, w)
					if err != nil {
						hs.mu.Lock()
						hs.parts = append(hs.parts, &interp{res: &HarnessResult{ID: hs.spec.ID, Name: hs.spec.Name, Inconclusive: []string{err.Error()}, Queries: map[string]int{}, Outcomes: map[string]int{}}})
						hs.mu.Unlock()
						pl.done(j)
						continue
					}
					mine[hs] = in
					order = append(order, hs)
					hs.mu.Lock()
					if hs.start.IsZero() {
						hs.start = time.Now()
						hs.deadline = hs.start.Add(hs.budget)
					}
					hs.parts = append(hs.parts, in)
					hs.mu.Unlock()
				} else if in.solver.cmd == nil {
					in.solver.start()
				}
				func() {
					defer func() {
						if r := recover(); r != nil {
							buf := make([]byte, 8192)
							n := runtime.Stack(buf, false)
							in.inconclusive(fmt.Sprintf("engine crash: %v\n%s", r, buf[:n]))
						}
					}()
					in.exploreJob(j, pl)
				}()
				pl.done(j)
				hs.mu.Lock()
				fin := hs.outstanding == 0
				hs.mu.Unlock()
				_ = fin
			}
			for _, in := range mine {
				in.solver.Close()
			}
		}(w)
	}
	wg.Wait()
	for i, hs := range hss {
		if hs == nil {
			continue
		}
		var parts []*HarnessResult
		for _, in := range hs.parts {
			if in.solver != nil {
				parts = append(parts, in.finishResult())
			} else {
				parts = append(parts, in.res)
			}
		}
		r := mergeResults(parts)
		r.WallS = time.Since(hs.start).Seconds()
		results[i] = r
		fmt.Fprintf(os.Stderr, "[gosmt] %s: paths=%d ok=%d findings=%d inconclusive=%d queries=%d solver=%.1fs workers=%d\n",
			r.ID, r.Paths, r.PathsOK, len(r.Findings), len(r.Inconclusive), r.Queries["total"], r.SolverS, len(parts))
	}
	out.Harnesses = results
	out.WallS = time.Since(t0).Seconds()
	writeOut(out, *outPath)
}

func isRoot(roots []*packages.Package, p *packages.Package) bool {
	for _, r := range roots {
		if r == p {
			return true
		}
	}
	return false
}

func findFunc(prog *ssa.Program, pkgPath, name string) *ssa.Function {
	for _, p := range prog.AllPackages() {
		if p.Pkg.Path() == pkgPath {
			if f := p.Func(name); f != nil {
				return f
			}
		}
	}
	return nil
}

func newInterp(prog *ssa.Program, spec *Spec, h *HarnessSpec, trace bool, smtlog string, w int) (*interp, error) {
	cfg, err := compileCfg(spec, h)
	if err != nil {
		return nil, err
	}
	ts := NewTermStore()
	to := h.TimeoutMs
	if to == 0 {
		to = 3000
	}
	var logw io.Writer
	if smtlog != "" {
		f, _ := os.Create(fmt.Sprintf("%s.%s.w%d.smt2", smtlog, h.Name, w))
		logw = f
	}
	solver, err := NewSolver(ts, spec.Solver, to, logw)
	if err != nil {
		return nil, fmt.Errorf("solver start: %v", err)
	}
	solver.FallbackMs = orDefault(h.FallbackMs, 20000)
	in := &interp{prog: prog, ts: ts, solver: solver, cfg: cfg,
		fninfo: map[*ssa.Function]*fnInfo{}, constCache: map[*ssa.Const]value{},
		unwind: orDefault(h.Unwind, 16), maxSteps: orDefault(h.MaxSteps, 20_000_000), maxDepth: 400,
		maxFork: orDefault(h.MaxFork, 64), maxSymAlloc: orDefault(h.SymAlloc, 16), maxConcAlloc: 1 << 22,
		maxPaths: orDefault(h.MaxPaths, 200000), trace: trace, traceOut: os.Stderr, fmtCalls: h.FmtCalls}
	if rt := prog.ImportedPackage("runtime"); rt != nil {
		if t := rt.Type("errorString"); t != nil {
			in.runtimeErrorT = t.Object().Type()
		}
	}
	if in.runtimeErrorT == nil {
		in.runtimeErrorT = types.Typ[types.String]
	}
	if ep := prog.ImportedPackage("errors"); ep != nil {
		if t := ep.Type("errorString"); t != nil {
			in.errorStringT = t.Object().Type()
		}
	}
	in.initResult(h)
	return in, nil
}

func orDefault(v, d int) int {
	if v == 0 {
		return d
	}
	return v
}

var _ = filepath.Join

package main

// Symbolic SSA interpreter core: frames, instructions, calls, defers, panics.
// Path exploration is by re-execution: every path is run from the start of the
// harness; symbolic decisions are replayed from a recorded prefix (explore.go).

import (
	"fmt"
	"go/token"
	"go/types"
	"strings"

	"golang.org/x/tools/go/ssa"
)

// pathAbort ends the current path (propagates through every frame without
// running target defers).
type pathAbort struct {
	kind string // assume | infeasible | unwind | unsupported | deadlock | budget | stop | exit
	msg  string
}

// targetPanic is a panic of the program under analysis.
type targetPanic struct {
	v    value
	site string
	rt   bool // runtime error (nil deref, index, ...) as opposed to explicit panic()
}

type deferred struct {
	fn    value
	args  []value
	instr *ssa.Defer
	tail  *deferred
}

type fnInfo struct {
	fn        *ssa.Function
	name      string
	intrinsic intrinsicFn
	stub      string // by-name stub kind ("" none)
	api       string // harness API function name ("" none)
	idx       map[ssa.Value]int
	nvals     int
}

type frame struct {
	in               *interp
	caller           *frame
	fn               *ssa.Function
	info             *fnInfo
	block, prevBlock *ssa.BasicBlock
	env              []value
	locals           []value
	defers           *deferred
	result           value
	panicking        bool
	panic            interface{}
	phitemps         []value
	symIfs           map[ssa.Instruction]int
	depth            int
	curInstr         ssa.Instruction
}

func (in *interp) unsupported(msg string) {
	panic(pathAbort{kind: "unsupported", msg: msg})
}

func (in *interp) info(fn *ssa.Function) *fnInfo {
	if fi, ok := in.fninfo[fn]; ok {
		return fi
	}
	fi := &fnInfo{fn: fn, name: fn.String()}
	if fn.Origin() != nil {
		// instantiation of a generic: also match intrinsics by origin name
		if f, ok := intrinsics[fn.Origin().String()]; ok {
			fi.intrinsic = f
		}
	}
	if f, ok := intrinsics[fi.name]; ok {
		fi.intrinsic = f
	}
	if fn.Pos().IsValid() && strings.HasPrefix(fn.Name(), "v") {
		file := in.prog.Fset.Position(fn.Pos()).Filename
		if i := strings.LastIndex(file, "/"); i >= 0 {
			file = file[i+1:]
		}
		if strings.HasPrefix(file, "zz_verif") {
			fi.api = fn.Name()
		}
	}
	if in.cfg != nil {
		if k, ok := in.cfg.stubFor(fi.name, fn); ok {
			fi.stub = k
		}
	}
	in.fninfo[fn] = fi
	return fi
}

func (in *interp) buildIdx(fi *fnInfo) {
	fn := fi.fn
	fi.idx = make(map[ssa.Value]int)
	n := 0
	for _, p := range fn.Params {
		fi.idx[p] = n
		n++
	}
	for _, p := range fn.FreeVars {
		fi.idx[p] = n
		n++
	}
	for _, b := range fn.Blocks {
		for _, ins := range b.Instrs {
			if v, ok := ins.(ssa.Value); ok {
				fi.idx[v] = n
				n++
			}
		}
	}
	fi.nvals = n
}

func (fr *frame) set(k ssa.Value, v value) { fr.env[fr.info.idx[k]] = v }

func (fr *frame) get(key ssa.Value) value {
	switch key := key.(type) {
	case nil:
		return nil
	case *ssa.Function:
		return key
	case *ssa.Builtin:
		return key
	case *ssa.Const:
		return fr.in.constValue(key)
	case *ssa.Global:
		return fr.in.globalAddr(key)
	}
	if i, ok := fr.info.idx[key]; ok {
		v := fr.env[i]
		if v == nil {
			// nil is a legal value only for untyped nil handled elsewhere
			return nil
		}
		return v
	}
	panic(fmt.Sprintf("get: no value for %T: %v in %s", key, key.Name(), fr.fn))
}

func (in *interp) constValue(c *ssa.Const) value {
	if v, ok := in.constCache[c]; ok {
		return v
	}
	v := in.constValue0(c)
	switch v.(type) {
	case *Term, string, float64:
		in.constCache[c] = v
	}
	return v
}

func (in *interp) constValue0(c *ssa.Const) value {
	if c.Value == nil {
		return in.zero(c.Type()) // typed zero / nil
	}
	t := c.Type().Underlying()
	if b, ok := t.(*types.Basic); ok {
		if w, signed, ok := basicWidth(b); ok {
			if w == 0 {
				return in.ts.Bool(constantBool(c))
			}
			if signed {
				return in.ts.BVi(c.Int64(), w)
			}
			return in.ts.BV(c.Uint64(), w)
		}
		switch {
		case b.Info()&types.IsFloat != 0:
			return c.Float64()
		case b.Info()&types.IsString != 0:
			return constantString(c)
		case b.Info()&types.IsComplex != 0:
			return c.Complex128()
		}
	}
	if _, ok := t.(*types.TypeParam); ok {
		panic("const of type parameter")
	}
	panic(fmt.Sprintf("constValue: %s", c))
}

func (in *interp) globalAddr(g *ssa.Global) *value {
	if p, ok := in.globals[g]; ok {
		return p
	}
	// allocate every global of the package, then run its initialiser lazily
	pkg := g.Pkg
	for _, m := range pkg.Members {
		if gv, ok := m.(*ssa.Global); ok {
			cell := in.zero(deref(gv.Type()))
			in.globals[gv] = &cell
		}
	}
	in.initPackage(pkg)
	return in.globals[g]
}

// initPackage runs pkg's init function once per path, skipping the init calls
// of imported packages (those run lazily when one of their globals is touched).
func (in *interp) initPackage(pkg *ssa.Package) {
	if in.pkgInit[pkg] {
		return
	}
	in.pkgInit[pkg] = true
	initFn := pkg.Func("init")
	if initFn == nil || initFn.Blocks == nil {
		return
	}
	if in.cfg != nil && in.cfg.skipInit[pkg.Pkg.Path()] {
		return
	}
	switch pkg.Pkg.Path() {
	case "runtime", "syscall", "internal/poll", "internal/cpu", "internal/godebug", "os/signal", "net", "reflect", "internal/reflectlite", "unsafe":
		return
	}
	saved := in.inInit
	in.inInit++
	defer func() {
		in.inInit = saved
		if r := recover(); r != nil {
			if pa, ok := r.(pathAbort); ok && (pa.kind == "engine" || pa.kind == "unsupported") {
				// an initialiser the engine cannot execute: the remaining globals stay zero
				in.res.Events["init-incomplete: "+pkg.Pkg.Path()+": "+pa.msg]++
				return
			}
			panic(r)
		}
	}()
	in.callSSA(nil, token.NoPos, initFn, nil, nil)
}

// ---------------------------------------------------------------------------

func (in *interp) rtPanic(fr *frame, msg string) {
	site := ""
	if fr != nil {
		site = in.siteOf(fr)
	}
	panic(targetPanic{v: iface{t: in.runtimeErrorT, v: msg}, site: site, rt: true})
}

func (in *interp) siteOf(fr *frame) string {
	pos := token.NoPos
	if fr.curInstr != nil {
		pos = fr.curInstr.Pos()
	}
	name := fr.fn.String()
	if pos != token.NoPos {
		p := in.prog.Fset.Position(pos)
		return fmt.Sprintf("%s@%s:%d", name, shortPath(p.Filename), p.Line)
	}
	return name
}

var repoRoot string // spec.Repo: stripped from source positions

func shortPath(p string) string {
	if repoRoot != "" && strings.HasPrefix(p, repoRoot+"/") {
		return p[len(repoRoot)+1:]
	}
	if i := strings.Index(p, "/repo/"); i >= 0 {
		return p[i+6:]
	}
	if i := strings.LastIndex(p, "/src/"); i >= 0 {
		return p[i+5:]
	}
	return p
}

func (fr *frame) runDefer(d *deferred) {
	var ok bool
	defer func() {
		if !ok {
			r := recover()
			if pa, isAbort := r.(pathAbort); isAbort {
				panic(pa)
			}
			if _, isT := r.(targetPanic); !isT {
				panic(r) // engine bug: propagate
			}
			fr.panicking = true
			fr.panic = r
		}
	}()
	fr.in.call(fr, d.instr.Pos(), d.fn, d.args)
	ok = true
}

func (fr *frame) runDefers() {
	for d := fr.defers; d != nil; d = d.tail {
		fr.runDefer(d)
	}
	fr.defers = nil
	if fr.panicking {
		panic(fr.panic)
	}
}

func (in *interp) lookupMethod(typ types.Type, meth *types.Func) *ssa.Function {
	return in.prog.LookupMethod(typ, meth.Pkg(), meth.Name())
}

func (in *interp) asTerm(v value, what string) *Term {
	t, ok := v.(*Term)
	if !ok {
		if o, isO := v.(opaque); isO {
			in.unsupported("use of opaque value (" + o.why + ") as " + what)
		}
		in.unsupported(fmt.Sprintf("%s: expected scalar, got %T", what, v))
	}
	return t
}

// concInt forces an integer term to a concrete value in [lo,hi] by forking;
// ok=false on the path where it lies outside.
func (in *interp) concInt(t *Term, signed bool, lo, hi int64, tag string) (int64, bool) {
	ts := in.ts
	if t.IsConst() {
		var v int64
		if signed {
			v = t.Int()
		} else {
			if t.k > uint64(1<<62) {
				return 0, false
			}
			v = int64(t.k)
		}
		return v, v >= lo && v <= hi
	}
	x := t
	if t.w < 64 {
		if signed {
			x = ts.SExt(t, 64)
		} else {
			x = ts.ZExt(t, 64)
		}
	}
	n := int(hi-lo) + 1
	if n > in.maxFork {
		in.unsupported(fmt.Sprintf("%s: symbolic value with %d candidate values", tag, n))
	}
	conds := make([]*Term, 0, n+1)
	for v := lo; v <= hi; v++ {
		conds = append(conds, ts.Eq(x, ts.BVi(v, 64)))
	}
	var out *Term
	if signed || t.w < 64 {
		out = ts.Or(ts.Cmp(OpSLt, x, ts.BVi(lo, 64)), ts.Cmp(OpSLt, ts.BVi(hi, 64), x))
	} else {
		out = ts.Cmp(OpULt, ts.BVi(hi, 64), x)
		if lo > 0 {
			out = ts.Or(out, ts.Cmp(OpULt, x, ts.BVi(lo, 64)))
		}
	}
	conds = append(conds, out)
	c := in.decide(conds, true, tag)
	if c == n {
		return 0, false
	}
	return lo + int64(c), true
}

func (in *interp) typeSigned(t types.Type) bool {
	_, s, _ := intType(t)
	return s
}

// visitInstr interprets one instruction.
func (in *interp) visitInstr(fr *frame, instr ssa.Instruction) (ret bool) {
	fr.curInstr = instr
	in.steps++
	if in.steps > in.maxSteps {
		panic(pathAbort{kind: "budget", msg: fmt.Sprintf("more than %d instructions on one path", in.maxSteps)})
	}
	ts := in.ts
	switch instr := instr.(type) {
	case *ssa.DebugRef:

	case *ssa.UnOp:
		fr.set(instr, in.unop(fr, instr, fr.get(instr.X)))

	case *ssa.BinOp:
		fr.set(instr, in.binop(fr, instr.Op, instr.X.Type(), fr.get(instr.X), fr.get(instr.Y)))

	case *ssa.Call:
		fn, args := in.prepareCall(fr, &instr.Call)
		if in.inInit > 0 {
			fr.set(instr, in.initCall(fr, instr, fn, args))
		} else {
			fr.set(instr, in.call(fr, instr.Pos(), fn, args))
		}
		fr.curInstr = instr

	case *ssa.ChangeInterface:
		fr.set(instr, fr.get(instr.X))

	case *ssa.ChangeType:
		fr.set(instr, fr.get(instr.X))

	case *ssa.Convert:
		fr.set(instr, in.conv(fr, instr.Type(), instr.X.Type(), fr.get(instr.X)))

	case *ssa.MultiConvert:
		fr.set(instr, in.conv(fr, instr.Type(), instr.X.Type(), fr.get(instr.X)))

	case *ssa.SliceToArrayPointer:
		x := fr.get(instr.X).([]value)
		n := deref(instr.Type()).Underlying().(*types.Array).Len()
		if int64(len(x)) < n {
			in.rtPanic(fr, "cannot convert slice to array pointer: length too short")
		}
		if x == nil {
			fr.set(instr, (*value)(nil))
		} else {
			var v value = array(x[:n:n])
			fr.set(instr, &v)
		}

	case *ssa.MakeInterface:
		fr.set(instr, iface{t: instr.X.Type(), v: fr.get(instr.X)})

	case *ssa.Extract:
		tup, ok := fr.get(instr.Tuple).(tuple)
		if !ok {
			if o, isO := fr.get(instr.Tuple).(opaque); isO {
				fr.set(instr, o)
				break
			}
			panic(fmt.Sprintf("extract from %T", fr.get(instr.Tuple)))
		}
		fr.set(instr, tup[instr.Index])

	case *ssa.Slice:
		fr.set(instr, in.slice(fr, instr))

	case *ssa.Return:
		switch len(instr.Results) {
		case 0:
		case 1:
			fr.result = fr.get(instr.Results[0])
		default:
			res := make(tuple, len(instr.Results))
			for i, r := range instr.Results {
				res[i] = fr.get(r)
			}
			fr.result = res
		}
		fr.block = nil
		return true

	case *ssa.RunDefers:
		fr.runDefers()

	case *ssa.Panic:
		panic(targetPanic{v: fr.get(instr.X), site: in.siteOf(fr)})

	case *ssa.Send:
		ch := fr.get(instr.Chan).(*schan)
		in.chanSend(fr, ch, fr.get(instr.X))

	case *ssa.Store:
		addr := fr.get(instr.Addr)
		val := fr.get(instr.Val)
		switch a := addr.(type) {
		case *value:
			if a == nil {
				in.rtPanic(fr, "invalid memory address or nil pointer dereference")
			}
			store(deref(instr.Addr.Type()), a, val)
		case *symref:
			in.symStore(fr, a, val)
		case opaque:
			in.unsupported("store through opaque pointer: " + a.why)
		default:
			panic(fmt.Sprintf("store to %T", addr))
		}

	case *ssa.If:
		c := in.asTerm(fr.get(instr.Cond), "branch condition")
		succ := 1
		if c.IsConst() {
			if c.k == 1 {
				succ = 0
			}
		} else {
			if fr.symIfs == nil {
				fr.symIfs = map[ssa.Instruction]int{}
			}
			fr.symIfs[instr]++
			if fr.symIfs[instr] > in.unwind {
				panic(pathAbort{kind: "unwind", msg: fmt.Sprintf("symbolic branch taken more than %d times in one activation at %s", in.unwind, in.siteOf(fr))})
			}
			if in.branch(c, "if") {
				succ = 0
			}
		}
		fr.prevBlock, fr.block = fr.block, fr.block.Succs[succ]
		return false

	case *ssa.Jump:
		fr.prevBlock, fr.block = fr.block, fr.block.Succs[0]
		return false

	case *ssa.Defer:
		fn, args := in.prepareCall(fr, &instr.Call)
		defers := &fr.defers
		if instr.DeferStack != nil {
			if into := fr.get(instr.DeferStack); into != nil {
				defers = into.(**deferred)
			}
		}
		*defers = &deferred{fn: fn, args: args, instr: instr, tail: *defers}

	case *ssa.Go:
		fn, args := in.prepareCall(fr, &instr.Call)
		in.goStmt(fr, instr, fn, args)

	case *ssa.MakeChan:
		n, ok := in.concInt(in.asTerm(fr.get(instr.Size), "chan size"), true, 0, 1<<20, "chan-size")
		if !ok {
			in.rtPanic(fr, "makechan: size out of range")
		}
		fr.set(instr, &schan{cap: int(n), elemT: instr.Type().Underlying().(*types.Chan).Elem()})

	case *ssa.Alloc:
		var addr *value
		if instr.Heap {
			addr = new(value)
			fr.set(instr, addr)
		} else {
			addr = fr.get(instr).(*value)
		}
		*addr = in.zero(deref(instr.Type()))

	case *ssa.MakeSlice:
		lt := in.asTerm(fr.get(instr.Len), "make len")
		ct := in.asTerm(fr.get(instr.Cap), "make cap")
		n, ok := in.allocLen(fr, lt, in.typeSigned(instr.Len.Type()))
		if !ok {
			in.rtPanic(fr, "makeslice: len out of range")
		}
		c := n
		if ct != lt {
			c, ok = in.allocLen(fr, ct, in.typeSigned(instr.Cap.Type()))
			if !ok || c < n {
				in.rtPanic(fr, "makeslice: cap out of range")
			}
		}
		s := make([]value, c)
		tElt := instr.Type().Underlying().(*types.Slice).Elem()
		in.steps += int(c) / 8
		for i := range s {
			s[i] = in.zero(tElt)
		}
		fr.set(instr, s[:n])

	case *ssa.MakeMap:
		fr.set(instr, newMap(instr.Type().Underlying().(*types.Map).Key()))

	case *ssa.Range:
		fr.set(instr, in.rangeIter(fr, fr.get(instr.X), instr.X.Type()))

	case *ssa.Next:
		fr.set(instr, fr.get(instr.Iter).(iter).next())

	case *ssa.FieldAddr:
		x := fr.get(instr.X)
		p, ok := x.(*value)
		if !ok {
			if o, isO := x.(opaque); isO {
				fr.set(instr, o)
				break
			}
			panic(fmt.Sprintf("FieldAddr of %T", x))
		}
		if p == nil {
			in.rtPanic(fr, "invalid memory address or nil pointer dereference")
		}
		st, ok := (*p).(structure)
		if !ok {
			if o, isO := (*p).(opaque); isO {
				fr.set(instr, o)
				break
			}
			panic(fmt.Sprintf("FieldAddr: pointee is %T in %s", *p, fr.fn))
		}
		fr.set(instr, &st[instr.Field])

	case *ssa.Field:
		x := fr.get(instr.X)
		if o, isO := x.(opaque); isO {
			fr.set(instr, o)
			break
		}
		fr.set(instr, x.(structure)[instr.Field])

	case *ssa.IndexAddr:
		fr.set(instr, in.indexAddr(fr, instr))

	case *ssa.Index:
		x := fr.get(instr.X)
		idx := in.asTerm(fr.get(instr.Index), "index")
		signed := in.typeSigned(instr.Index.Type())
		switch x := x.(type) {
		case array:
			if !idx.IsConst() && allTerms(x) {
				fr.set(instr, in.symRead(fr, x, idx, signed))
				break
			}
			i, ok := in.concInt(idx, signed, 0, int64(len(x))-1, "index")
			if !ok {
				in.rtPanic(fr, "index out of range")
			}
			fr.set(instr, x[i])
		case string, symstr:
			bs := in.strBytes(x)
			if !idx.IsConst() {
				vals := make([]value, len(bs))
				for i, b := range bs {
					vals[i] = b
				}
				fr.set(instr, in.symRead(fr, vals, idx, signed))
				break
			}
			i, ok := in.concInt(idx, signed, 0, int64(len(bs))-1, "index")
			if !ok {
				in.rtPanic(fr, "index out of range")
			}
			fr.set(instr, bs[i])
		default:
			panic(fmt.Sprintf("unexpected x type in Index: %T", x))
		}

	case *ssa.Lookup:
		fr.set(instr, in.lookup(fr, instr, fr.get(instr.X), fr.get(instr.Index)))

	case *ssa.MapUpdate:
		m, ok := fr.get(instr.Map).(*smap)
		if !ok {
			in.unsupported(fmt.Sprintf("map update on %T", fr.get(instr.Map)))
		}
		if m == nil {
			panic(targetPanic{v: iface{t: in.runtimeErrorT, v: "assignment to entry in nil map"}, site: in.siteOf(fr), rt: true})
		}
		in.mapInsert(m, fr.get(instr.Key), fr.get(instr.Value))

	case *ssa.TypeAssert:
		fr.set(instr, in.typeAssert(fr, instr, fr.get(instr.X)))

	case *ssa.MakeClosure:
		bindings := make([]value, len(instr.Bindings))
		for i, b := range instr.Bindings {
			bindings[i] = fr.get(b)
		}
		fr.set(instr, &closure{instr.Fn.(*ssa.Function), bindings})

	case *ssa.Phi:
		panic("unreachable: phi")

	case *ssa.Select:
		fr.set(instr, in.selectStmt(fr, instr))

	default:
		panic(fmt.Sprintf("unexpected instruction: %T", instr))
	}
	_ = ts
	return false
}

func allTerms(vs []value) bool {
	for _, v := range vs {
		if _, ok := v.(*Term); !ok {
			return false
		}
	}
	return true
}

// allocLen concretises an allocation length.
func (in *interp) allocLen(fr *frame, t *Term, signed bool) (int64, bool) {
	if t.IsConst() {
		v := t.Int()
		if !signed && t.w < 64 {
			v = int64(t.k)
		}
		if v < 0 {
			return 0, false
		}
		if v > int64(in.maxConcAlloc) {
			in.unsupported(fmt.Sprintf("allocation of %d elements", v))
		}
		return v, true
	}
	n, ok := in.concInt(t, signed, 0, int64(in.maxSymAlloc), "alloc-len")
	if ok {
		return n, true
	}
	// outside 0..maxSymAlloc: negative (runtime panic) or a large allocation
	x := t
	if t.w < 64 {
		if signed {
			x = in.ts.SExt(t, 64)
		} else {
			x = in.ts.ZExt(t, 64)
		}
	}
	neg := in.ts.False
	if signed {
		neg = in.ts.Cmp(OpSLt, x, in.ts.BV(0, 64))
	}
	if !neg.IsFalse() && in.branch(neg, "alloc-neg") {
		return 0, false
	}
	in.event("big-alloc", fmt.Sprintf("symbolic allocation length may exceed %d at %s", in.maxSymAlloc, in.siteOf(fr)))
	panic(pathAbort{kind: "bigalloc", msg: "symbolic allocation length beyond bound at " + in.siteOf(fr)})
}

// symref is a pointer to elems[idx] with symbolic idx (already known in range).
type symref struct {
	elems []value
	idx   *Term // 64-bit
}

func (in *interp) norm64(t *Term, signed bool) *Term {
	if t.w == 64 {
		return t
	}
	if signed {
		return in.ts.SExt(t, 64)
	}
	return in.ts.ZExt(t, 64)
}

func (in *interp) inRange(fr *frame, idx *Term, signed bool, n int) *Term {
	x := in.norm64(idx, signed)
	if n == 0 {
		in.rtPanic(fr, "index out of range")
	}
	// 0 <= x < n  as unsigned compare
	c := in.ts.Cmp(OpULt, x, in.ts.BV(uint64(n), 64))
	if !c.IsTrue() {
		if !in.branch(c, "bounds") {
			in.rtPanic(fr, "index out of range")
		}
	}
	return x
}

func (in *interp) symRead(fr *frame, elems []value, idx *Term, signed bool) value {
	x := in.inRange(fr, idx, signed, len(elems))
	ts := in.ts
	r := elems[len(elems)-1].(*Term)
	for i := len(elems) - 2; i >= 0; i-- {
		r = ts.Ite(ts.Eq(x, ts.BV(uint64(i), 64)), elems[i].(*Term), r)
	}
	return r
}

func (in *interp) symStore(fr *frame, a *symref, v value) {
	t := in.asTerm(v, "store through symbolic index")
	ts := in.ts
	for i := range a.elems {
		old, ok := a.elems[i].(*Term)
		if !ok {
			in.unsupported("symbolic-index store into non-scalar element")
		}
		a.elems[i] = ts.Ite(ts.Eq(a.idx, ts.BV(uint64(i), 64)), t, old)
	}
}

func (in *interp) indexAddr(fr *frame, instr *ssa.IndexAddr) value {
	x := fr.get(instr.X)
	idx := in.asTerm(fr.get(instr.Index), "index")
	signed := in.typeSigned(instr.Index.Type())
	var elems []value
	switch x := x.(type) {
	case []value:
		elems = x
	case *value:
		if x == nil {
			in.rtPanic(fr, "invalid memory address or nil pointer dereference")
		}
		a, ok := (*x).(array)
		if !ok {
			in.unsupported(fmt.Sprintf("IndexAddr on pointer to %T", *x))
		}
		elems = a
	case opaque:
		return x
	default:
		panic(fmt.Sprintf("unexpected x type in IndexAddr: %T", x))
	}
	if idx.IsConst() {
		i, ok := in.concInt(idx, signed, 0, int64(len(elems))-1, "index")
		if !ok {
			in.rtPanic(fr, fmt.Sprintf("index out of range [%d] with length %d", idx.Int(), len(elems)))
		}
		return &elems[i]
	}
	// symbolic index: if only loaded from / stored to and elements are scalars, stay symbolic
	if allTerms(elems) && len(elems) > 0 && onlyLoadStore(instr) {
		xi := in.inRange(fr, idx, signed, len(elems))
		return &symref{elems: elems, idx: xi}
	}
	i, ok := in.concInt(idx, signed, 0, int64(len(elems))-1, "index")
	if !ok {
		in.rtPanic(fr, "index out of range")
	}
	return &elems[i]
}

func onlyLoadStore(instr *ssa.IndexAddr) bool {
	refs := instr.Referrers()
	if refs == nil {
		return false
	}
	for _, r := range *refs {
		switch r := r.(type) {
		case *ssa.UnOp:
			if r.Op != token.MUL {
				return false
			}
		case *ssa.Store:
			if r.Addr != instr {
				return false
			}
		case *ssa.DebugRef:
		default:
			return false
		}
	}
	return true
}

func (in *interp) slice(fr *frame, instr *ssa.Slice) value {
	x := fr.get(instr.X)
	var lo, hi, max int64
	var Len, Cap int64
	switch x := x.(type) {
	case string:
		Len, Cap = int64(len(x)), int64(len(x))
	case symstr:
		Len, Cap = int64(len(x)), int64(len(x))
	case []value:
		Len, Cap = int64(len(x)), int64(cap(x))
	case *value:
		if x == nil {
			in.rtPanic(fr, "invalid memory address or nil pointer dereference")
		}
		a := (*x).(array)
		Len, Cap = int64(len(a)), int64(len(a))
	case opaque:
		return x
	default:
		panic(fmt.Sprintf("slice of %T", x))
	}
	bound := func(v ssa.Value, def int64) int64 {
		if v == nil {
			return def
		}
		t := in.asTerm(fr.get(v), "slice bound")
		n, ok := in.concInt(t, in.typeSigned(v.Type()), 0, Cap, "slice-bound")
		if !ok {
			in.rtPanic(fr, "slice bounds out of range")
		}
		return n
	}
	lo = bound(instr.Low, 0)
	hi = bound(instr.High, Len)
	max = bound(instr.Max, Cap)
	_, isStr := x.(string)
	_, isSym := x.(symstr)
	if isStr || isSym {
		if hi > Len {
			in.rtPanic(fr, "slice bounds out of range")
		}
	}
	if lo > hi || hi > max || max > Cap {
		in.rtPanic(fr, fmt.Sprintf("slice bounds out of range [%d:%d:%d] with capacity %d", lo, hi, max, Cap))
	}
	switch x := x.(type) {
	case string:
		return x[lo:hi]
	case symstr:
		return in.mkStr(x[lo:hi])
	case []value:
		if x == nil {
			return x
		}
		return x[lo:hi:max]
	case *value:
		return []value((*x).(array))[lo:hi:max]
	}
	panic("unreachable")
}

func (in *interp) lookup(fr *frame, instr *ssa.Lookup, x, idx value) value {
	switch x := x.(type) {
	case *smap:
		var v value
		var ok bool
		if e := in.mapFind(x, idx); e != nil {
			v, ok = copyVal(e.v), true
		} else {
			v = in.zero(instr.X.Type().Underlying().(*types.Map).Elem())
		}
		if instr.CommaOk {
			return tuple{v, in.ts.Bool(ok)}
		}
		return v
	case opaque:
		return x
	}
	panic(fmt.Sprintf("unexpected x type in Lookup: %T", x))
}

func (in *interp) rangeIter(fr *frame, x value, t types.Type) iter {
	switch x := x.(type) {
	case *smap:
		if x == nil {
			return &mapIter{ts: in.ts}
		}
		snap := append([]*mentry{}, x.entries...)
		// Go starts a map range at a random entry. For the functions named by the harness spec
		// (map_rotate) the start is an explored choice: every rotation of the insertion order (which is
		// exactly what the runtime does for a map that fits one bucket, i.e. up to 8 entries).
		if n := len(snap); n >= 2 && in.cfg != nil && in.cfg.mapRotate(fr.fn.String()) {
			alts := make([]*Term, n)
			for i := range alts {
				alts[i] = in.ts.True
			}
			k := in.decide(alts, true, "map-range-start")
			snap = append(append([]*mentry{}, snap[k:]...), snap[:k]...)
			in.event("map-range-start", fmt.Sprintf("%s: entry %d of %d", fr.fn.Name(), k, n))
		}
		return &mapIter{snap: snap, m: x, ts: in.ts}
	case string, symstr:
		return &stringIter{in: in, s: x}
	}
	in.unsupported(fmt.Sprintf("range over %T", x))
	return nil
}

func (in *interp) typeAssert(fr *frame, instr *ssa.TypeAssert, xv value) value {
	itf, ok := xv.(iface)
	if !ok {
		if o, isO := xv.(opaque); isO {
			in.unsupported("type assertion on opaque value: " + o.why)
		}
		panic(fmt.Sprintf("typeAssert on %T", xv))
	}
	var v value
	err := ""
	if itf.t == nil {
		err = fmt.Sprintf("interface conversion: interface is nil, not %s", instr.AssertedType)
	} else if idst, ok := instr.AssertedType.Underlying().(*types.Interface); ok && !isTypeParam(instr.AssertedType) {
		v = itf
		if meth, _ := types.MissingMethod(itf.t, idst, true); meth != nil {
			err = fmt.Sprintf("interface conversion: %v is not %v: missing method %s", itf.t, idst, meth.Name())
		}
	} else if types.Identical(itf.t, instr.AssertedType) {
		v = itf.v
	} else {
		err = fmt.Sprintf("interface conversion: interface is %s, not %s", itf.t, instr.AssertedType)
	}
	if err != "" {
		if !instr.CommaOk {
			in.rtPanic(fr, err)
		}
		return tuple{in.zero(instr.AssertedType), in.ts.False}
	}
	if instr.CommaOk {
		return tuple{v, in.ts.True}
	}
	return v
}

func isTypeParam(t types.Type) bool {
	_, ok := t.(*types.TypeParam)
	return ok
}

func (in *interp) prepareCall(fr *frame, call *ssa.CallCommon) (fn value, args []value) {
	v := fr.get(call.Value)
	if call.Method == nil {
		fn = v
	} else {
		recv, ok := v.(iface)
		if !ok {
			if o, isO := v.(opaque); isO {
				in.unsupported("method call on opaque value: " + o.why + " ." + call.Method.Name())
			}
			panic(fmt.Sprintf("invoke on %T", v))
		}
		if recv.t == nil {
			in.rtPanic(fr, "invalid memory address or nil pointer dereference (method "+call.Method.Name()+" on nil interface)")
		}
		f := in.lookupMethod(recv.t, call.Method)
		if f == nil {
			panic(fmt.Sprintf("method set for dynamic type %v does not contain %s", recv.t, call.Method))
		}
		fn = f
		args = append(args, recv.v)
	}
	for _, arg := range call.Args {
		args = append(args, fr.get(arg))
	}
	return
}

func (in *interp) call(caller *frame, callpos token.Pos, fn value, args []value) value {
	switch fn := fn.(type) {
	case *ssa.Function:
		if fn == nil {
			in.rtPanic(caller, "call of nil function")
		}
		return in.callSSA(caller, callpos, fn, args, nil)
	case *closure:
		if fn == nil {
			in.rtPanic(caller, "call of nil function")
		}
		return in.callSSA(caller, callpos, fn.Fn, args, fn.Env)
	case *ssa.Builtin:
		return in.callBuiltin(caller, callpos, fn, args)
	case opaque:
		in.unsupported("call of opaque function value: " + fn.why)
	}
	panic(fmt.Sprintf("cannot call %T", fn))
}

func (in *interp) callSSA(caller *frame, callpos token.Pos, fn *ssa.Function, args []value, env []value) value {
	fi := in.info(fn)
	fr := &frame{in: in, caller: caller, fn: fn, info: fi}
	if caller != nil {
		fr.depth = caller.depth + 1
		if fr.depth > in.maxDepth {
			panic(pathAbort{kind: "unwind", msg: fmt.Sprintf("call depth exceeds %d at %s", in.maxDepth, fi.name)})
		}
	}
	if in.trace {
		fmt.Fprintf(in.traceOut, "%*s-> %s\n", fr.depth, "", fi.name)
	}
	if caller != nil && in.inInit > 0 && fn.Synthetic == "package initializer" {
		return nil // imported packages are initialised lazily, on first touch of one of their globals
	}
	if fi.api != "" {
		if v, ok := in.harnessAPI(fr, fi.api, args); ok {
			return v
		}
	}
	if fi.stub != "" {
		return in.runStub(fr, fi, args)
	}
	if fi.intrinsic != nil {
		return fi.intrinsic(fr, args)
	}
	if fn.Blocks == nil {
		if in.inInit > 0 {
			return in.opaqueResult(fn, "no body: "+fi.name)
		}
		in.unsupported("no code for function: " + fi.name)
	}
	if fn.TypeParams().Len() > 0 && len(fn.TypeArgs()) == 0 {
		in.unsupported("uninstantiated generic: " + fi.name)
	}
	if fi.idx == nil {
		in.buildIdx(fi)
	}
	in.called[fn]++
	fr.env = make([]value, fi.nvals)
	fr.block = fn.Blocks[0]
	fr.locals = make([]value, len(fn.Locals))
	for i, l := range fn.Locals {
		fr.locals[i] = in.zero(deref(l.Type()))
		fr.env[fi.idx[l]] = &fr.locals[i]
	}
	for i, p := range fn.Params {
		fr.env[fi.idx[p]] = args[i]
	}
	for i, fv := range fn.FreeVars {
		fr.env[fi.idx[fv]] = env[i]
	}
	for fr.block != nil {
		in.runFrame(fr)
	}
	return fr.result
}

// initCall: inside a package initialiser a call the engine cannot execute yields
// an opaque result instead of ending the path (the rest of the initialiser still runs).
func (in *interp) initCall(fr *frame, instr *ssa.Call, fn value, args []value) (res value) {
	depth := in.inInit
	defer func() {
		if r := recover(); r != nil {
			pa, ok := r.(pathAbort)
			if !ok || (pa.kind != "engine" && pa.kind != "unsupported") {
				panic(r)
			}
			in.inInit = depth
			in.res.Events["init-call-opaque: "+pa.msg]++
			n := instr.Call.Signature().Results().Len()
			switch n {
			case 0:
				res = nil
			case 1:
				res = opaque{pa.msg}
			default:
				t := make(tuple, n)
				for i := range t {
					t[i] = opaque{pa.msg}
				}
				res = t
			}
		}
	}()
	return in.call(fr, instr.Pos(), fn, args)
}

// opaqueResult builds an opaque value shaped like fn's result.
func (in *interp) opaqueResult(fn *ssa.Function, why string) value {
	res := fn.Signature.Results()
	switch res.Len() {
	case 0:
		return nil
	case 1:
		return opaque{why}
	}
	t := make(tuple, res.Len())
	for i := range t {
		t[i] = opaque{why}
	}
	return t
}

func (in *interp) runFrame(fr *frame) {
	defer func() {
		if fr.block == nil {
			return // normal return
		}
		r := recover()
		if r == nil {
			return
		}
		if pa, ok := r.(pathAbort); ok {
			panic(pa)
		}
		tp, ok := r.(targetPanic)
		if !ok {
			// engine failure (bug or unmodelled shape): convert into an abort with context
			panic(pathAbort{kind: "engine", msg: fmt.Sprintf("%v in %s", r, in.siteOf(fr))})
		}
		if in.inInit > 0 && fr.caller == nil {
			// a panic escaping a package initialiser: leave the remaining globals zero
			fr.block = nil
			return
		}
		fr.panicking = true
		fr.panic = tp
		fr.runDefers()
		fr.block = fr.fn.Recover
		if fr.block == nil {
			// recovered in a function without named results: return zero value
			fr.result = in.zero(fr.fn.Signature.Results())
			if fr.fn.Signature.Results().Len() == 0 {
				fr.result = nil
			}
		}
	}()
	for {
		nonPhis := in.executePhis(fr)
		for _, instr := range nonPhis {
			if in.visitInstr(fr, instr) {
				return
			}
		}
	}
}

func (in *interp) executePhis(fr *frame) []ssa.Instruction {
	instrs := fr.block.Instrs
	firstNonPhi := 0
	for firstNonPhi < len(instrs) {
		if _, ok := instrs[firstNonPhi].(*ssa.Phi); !ok {
			break
		}
		firstNonPhi++
	}
	if firstNonPhi > 0 {
		predIndex := -1
		for i, p := range fr.block.Preds {
			if p == fr.prevBlock {
				predIndex = i
				break
			}
		}
		fr.phitemps = fr.phitemps[:0]
		for _, phi := range instrs[:firstNonPhi] {
			fr.phitemps = append(fr.phitemps, fr.get(phi.(*ssa.Phi).Edges[predIndex]))
		}
		for i, phi := range instrs[:firstNonPhi] {
			fr.set(phi.(*ssa.Phi), fr.phitemps[i])
		}
	}
	return instrs[firstNonPhi:]
}

func (in *interp) doRecover(caller *frame) value {
	if caller != nil && !caller.panicking && caller.caller != nil && caller.caller.panicking {
		caller.caller.panicking = false
		p := caller.caller.panic
		caller.caller.panic = nil
		if tp, ok := p.(targetPanic); ok {
			in.recovered = append(in.recovered, tp.site)
			return tp.v
		}
		panic(fmt.Sprintf("unexpected panic type %T in recover()", p))
	}
	return iface{}
}

// ---------------------------------------------------------------------------
// channels, select, go (single-goroutine semantics)

func (in *interp) chanSend(fr *frame, ch *schan, v value) {
	if ch == nil || ch.never {
		panic(pathAbort{kind: "deadlock", msg: "send on nil channel at " + in.siteOf(fr)})
	}
	if ch.closed {
		panic(targetPanic{v: iface{t: in.runtimeErrorT, v: "send on closed channel"}, site: in.siteOf(fr), rt: true})
	}
	if len(ch.buf) >= ch.cap {
		if in.cfg != nil && in.cfg.blockedSendOK {
			// the harness declares that this queue has a live consumer: waiting for room is fine — unless
			// the sender waits while holding a mutex (which the consumer may need: a real deadlock)
			if in.heldLocks == 0 {
				panic(pathAbort{kind: "blocked", msg: "send waits for the consumer at " + in.siteOf(fr)})
			}
			panic(pathAbort{kind: "deadlock", msg: fmt.Sprintf("send waits on a full queue while %d mutex(es) are held at %s", in.heldLocks, in.siteOf(fr))})
		}
		panic(pathAbort{kind: "deadlock", msg: "send would block forever (single goroutine) at " + in.siteOf(fr)})
	}
	ch.buf = append(ch.buf, copyVal(v))
}

func (in *interp) chanRecv(fr *frame, ch *schan, elemT types.Type) (value, bool) {
	if ch == nil || ch.never {
		panic(pathAbort{kind: "deadlock", msg: "receive on nil/never-ready channel at " + in.siteOf(fr)})
	}
	if len(ch.buf) > 0 {
		v := ch.buf[0]
		ch.buf = ch.buf[1:]
		return v, true
	}
	if ch.closed {
		return in.zero(elemT), false
	}
	panic(pathAbort{kind: "deadlock", msg: "receive would block forever (single goroutine) at " + in.siteOf(fr)})
}

func (in *interp) selectStmt(fr *frame, instr *ssa.Select) value {
	var ready []int
	for i, st := range instr.States {
		ch, _ := fr.get(st.Chan).(*schan)
		if ch == nil || ch.never {
			continue
		}
		if st.Dir == types.RecvOnly {
			if len(ch.buf) > 0 || ch.closed {
				ready = append(ready, i)
			}
		} else {
			if ch.closed || len(ch.buf) < ch.cap {
				ready = append(ready, i)
			}
		}
	}
	chosen := -1
	switch {
	case len(ready) == 1:
		chosen = ready[0]
	case len(ready) > 1:
		conds := make([]*Term, len(ready))
		for i := range conds {
			conds[i] = in.ts.True
		}
		chosen = ready[in.decide(conds, false, "select")]
	default:
		if instr.Blocking {
			panic(pathAbort{kind: "deadlock", msg: "select with no ready case at " + in.siteOf(fr)})
		}
	}
	r := tuple{in.ts.BVi(int64(chosen), 64), in.ts.False}
	for i, st := range instr.States {
		if st.Dir == types.RecvOnly {
			elemT := st.Chan.Type().Underlying().(*types.Chan).Elem()
			var v value
			if i == chosen {
				ch := fr.get(st.Chan).(*schan)
				var ok bool
				v, ok = in.chanRecv(fr, ch, elemT)
				r[1] = in.ts.Bool(ok)
			} else {
				v = in.zero(elemT)
			}
			r = append(r, v)
		} else if i == chosen {
			in.chanSend(fr, fr.get(st.Chan).(*schan), fr.get(st.Send))
		}
	}
	return r
}

func (in *interp) goStmt(fr *frame, instr *ssa.Go, fn value, args []value) {
	name := ""
	switch f := fn.(type) {
	case *ssa.Function:
		name = f.String()
	case *closure:
		name = f.Fn.String()
	}
	pol := "refuse"
	if in.cfg != nil {
		pol = in.cfg.goPolicy(name)
	}
	switch pol {
	case "sync":
		in.call(fr, instr.Pos(), fn, args)
	case "drop":
		in.event("go-dropped", name)
	default:
		in.unsupported("go statement: " + name + " at " + in.siteOf(fr))
	}
}

func constantBool(c *ssa.Const) bool     { return c.Value.String() == "true" }
func constantString(c *ssa.Const) string { return constStringVal(c) }

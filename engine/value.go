package main

// Value model (after x/tools/go/ssa/interp, with symbolic scalars):
//
//	bool, intN, uintN, uintptr : *Term (Bool / BitVec of the Go width)
//	float32/64                 : float64 (concrete only)
//	string                     : string (concrete) or symstr (concrete length, symbolic bytes)
//	pointer                    : *value (a Go pointer to the slot); nil = (*value)(nil)
//	struct / array             : structure / array (slices of slots)
//	slice                      : []value
//	map                        : *smap ; chan : *schan
//	interface                  : iface{t,v}
//	func                       : *ssa.Function | *closure | *ssa.Builtin | nil
//	tuple                      : tuple
//	opaque                     : a value the engine could not compute (only an error when used)

import (
	"fmt"
	"go/types"
	"strings"

	"golang.org/x/tools/go/ssa"
)

type value interface{}
type tuple []value
type array []value
type structure []value

type iface struct {
	t types.Type
	v value
}

type closure struct {
	Fn  *ssa.Function
	Env []value
}

type symstr []*Term // each BV8

type opaque struct{ why string }

type rtype struct{ t types.Type }

// bigval is the intrinsic model of a *big.Int payload is kept in bigmodel.go

type mentry struct {
	k, v value
}

type smap struct {
	keyT    types.Type
	entries []*mentry
	index   map[string]*mentry // for fully concrete keys
	nsym    int                // entries whose key is not concrete
}

type schan struct {
	buf    []value
	cap    int
	closed bool
	elemT  types.Type
	never  bool // a channel that is never ready (timers)
}

type iter interface{ next() tuple }

func deref(t types.Type) types.Type {
	if p, ok := t.Underlying().(*types.Pointer); ok {
		return p.Elem()
	}
	panic(fmt.Sprintf("deref: not a pointer: %v", t))
}

func basicWidth(b *types.Basic) (w int, signed bool, ok bool) {
	switch b.Kind() {
	case types.Bool, types.UntypedBool:
		return 0, false, true
	case types.Int8:
		return 8, true, true
	case types.Int16:
		return 16, true, true
	case types.Int32, types.UntypedRune:
		return 32, true, true
	case types.Int64, types.Int, types.UntypedInt:
		return 64, true, true
	case types.Uint8:
		return 8, false, true
	case types.Uint16:
		return 16, false, true
	case types.Uint32:
		return 32, false, true
	case types.Uint64, types.Uint, types.Uintptr:
		return 64, false, true
	}
	return 0, false, false
}

func intType(t types.Type) (w int, signed bool, ok bool) {
	if b, isb := t.Underlying().(*types.Basic); isb {
		w, signed, ok = basicWidth(b)
		if ok && w == 0 {
			return 0, false, false
		}
		return
	}
	return 0, false, false
}

func isFloat(t types.Type) bool {
	b, ok := t.Underlying().(*types.Basic)
	return ok && b.Info()&types.IsFloat != 0
}
func isString(t types.Type) bool {
	b, ok := t.Underlying().(*types.Basic)
	return ok && b.Info()&types.IsString != 0
}
func isBool(t types.Type) bool {
	b, ok := t.Underlying().(*types.Basic)
	return ok && b.Info()&types.IsBoolean != 0
}

func (in *interp) zero(t types.Type) value {
	switch t := t.(type) {
	case *types.Basic:
		if t.Kind() == types.UntypedNil {
			panic("untyped nil has no zero value")
		}
		if w, _, ok := basicWidth(t); ok {
			if w == 0 {
				return in.ts.False
			}
			return in.ts.BV(0, w)
		}
		switch {
		case t.Info()&types.IsFloat != 0:
			return float64(0)
		case t.Info()&types.IsString != 0:
			return ""
		case t.Kind() == types.UnsafePointer:
			return (*value)(nil)
		case t.Info()&types.IsComplex != 0:
			return complex128(0)
		}
		panic(fmt.Sprint("zero for unexpected type:", t))
	case *types.Pointer:
		return (*value)(nil)
	case *types.Array:
		a := make(array, t.Len())
		for i := range a {
			a[i] = in.zero(t.Elem())
		}
		return a
	case *types.Named:
		return in.zero(t.Underlying())
	case *types.Alias:
		return in.zero(types.Unalias(t))
	case *types.Interface:
		return iface{}
	case *types.Slice:
		return []value(nil)
	case *types.Struct:
		s := make(structure, t.NumFields())
		for i := range s {
			s[i] = in.zero(t.Field(i).Type())
		}
		return s
	case *types.Tuple:
		if t.Len() == 1 {
			return in.zero(t.At(0).Type())
		}
		s := make(tuple, t.Len())
		for i := range s {
			s[i] = in.zero(t.At(i).Type())
		}
		return s
	case *types.Chan:
		return (*schan)(nil)
	case *types.Map:
		return (*smap)(nil)
	case *types.Signature:
		return (*ssa.Function)(nil)
	case *types.TypeParam:
		panic("zero of type parameter")
	}
	panic(fmt.Sprint("zero: unexpected ", t))
}

// load returns a copy of the value of type T stored in *addr.
func load(T types.Type, addr *value) value {
	switch T := T.Underlying().(type) {
	case *types.Struct:
		v, ok := (*addr).(structure)
		if !ok {
			return *addr // opaque
		}
		a := make(structure, len(v))
		for i := range a {
			a[i] = load(T.Field(i).Type(), &v[i])
		}
		return a
	case *types.Array:
		v, ok := (*addr).(array)
		if !ok {
			return *addr
		}
		a := make(array, len(v))
		for i := range a {
			a[i] = load(T.Elem(), &v[i])
		}
		return a
	default:
		return *addr
	}
}

func store(T types.Type, addr *value, v value) {
	switch T := T.Underlying().(type) {
	case *types.Struct:
		lhs, ok1 := (*addr).(structure)
		rhs, ok2 := v.(structure)
		if !ok1 || !ok2 {
			*addr = v
			return
		}
		for i := range lhs {
			store(T.Field(i).Type(), &lhs[i], rhs[i])
		}
	case *types.Array:
		lhs, ok1 := (*addr).(array)
		rhs, ok2 := v.(array)
		if !ok1 || !ok2 {
			*addr = v
			return
		}
		for i := range lhs {
			store(T.Elem(), &lhs[i], rhs[i])
		}
	default:
		*addr = v
	}
}

// copyVal makes an unaliased copy of an aggregate value.
func copyVal(v value) value {
	switch v := v.(type) {
	case structure:
		a := make(structure, len(v))
		for i := range v {
			a[i] = copyVal(v[i])
		}
		return a
	case array:
		a := make(array, len(v))
		for i := range v {
			a[i] = copyVal(v[i])
		}
		return a
	}
	return v
}

func sameType(x, y types.Type) bool {
	if x == nil {
		return y == nil
	}
	return y != nil && types.Identical(x, y)
}

// strBytes returns the bytes of a string value as terms.
func (in *interp) strBytes(v value) []*Term {
	switch s := v.(type) {
	case string:
		out := make([]*Term, len(s))
		for i := 0; i < len(s); i++ {
			out[i] = in.ts.BV(uint64(s[i]), 8)
		}
		return out
	case symstr:
		return []*Term(s)
	}
	in.unsupported(fmt.Sprintf("string value of kind %T", v))
	return nil
}

func strLen(v value) int {
	switch s := v.(type) {
	case string:
		return len(s)
	case symstr:
		return len(s)
	}
	panic(pathAbort{kind: "unsupported", msg: fmt.Sprintf("len of string value %T", v)})
}

// mkStr builds a string value from byte terms (concrete if all constant).
func (in *interp) mkStr(bs []*Term) value {
	allc := true
	for _, b := range bs {
		if !b.IsConst() {
			allc = false
			break
		}
	}
	if allc {
		var sb strings.Builder
		for _, b := range bs {
			sb.WriteByte(byte(b.k))
		}
		return sb.String()
	}
	return symstr(append([]*Term{}, bs...))
}

// equals returns the Bool term "x == y" for values of static type t.
func (in *interp) equals(t types.Type, x, y value) *Term {
	ts := in.ts
	switch x := x.(type) {
	case *Term:
		yt, ok := y.(*Term)
		if !ok {
			in.unsupported(fmt.Sprintf("compare term with %T", y))
		}
		return ts.Eq(x, yt)
	case float64:
		return ts.Bool(x == y.(float64))
	case complex128:
		return ts.Bool(x == y.(complex128))
	case string, symstr:
		if xs, ok := x.(string); ok {
			if ys, ok := y.(string); ok {
				return ts.Bool(xs == ys)
			}
		}
		if strLen(x) != strLen(y) {
			return ts.False
		}
		xb, yb := in.strBytes(x), in.strBytes(y)
		r := ts.True
		for i := range xb {
			r = ts.And(r, ts.Eq(xb[i], yb[i]))
		}
		return r
	case *value:
		return ts.Bool(x == y.(*value))
	case *schan:
		return ts.Bool(x == y.(*schan))
	case structure:
		ys := y.(structure)
		st := t.Underlying().(*types.Struct)
		r := ts.True
		for i := 0; i < st.NumFields(); i++ {
			if st.Field(i).Name() == "_" {
				continue
			}
			r = ts.And(r, in.equals(st.Field(i).Type(), x[i], ys[i]))
			if r.IsFalse() {
				return r
			}
		}
		return r
	case array:
		ya := y.(array)
		et := t.Underlying().(*types.Array).Elem()
		r := ts.True
		for i := range x {
			r = ts.And(r, in.equals(et, x[i], ya[i]))
			if r.IsFalse() {
				return r
			}
		}
		return r
	case iface:
		yi := y.(iface)
		if !sameType(x.t, yi.t) {
			return ts.False
		}
		if x.t == nil {
			return ts.True
		}
		return in.equals(x.t, x.v, yi.v)
	case rtype:
		return ts.Bool(types.Identical(x.t, y.(rtype).t))
	case *smap:
		return ts.Bool(x == y.(*smap))
	case []value:
		ys, _ := y.([]value)
		return ts.Bool(x == nil && ys == nil) // slices compare only against nil
	case *ssa.Builtin:
		return ts.False
	case *ssa.Function:
		if yf, ok := y.(*ssa.Function); ok {
			return ts.Bool(x == yf)
		}
		return ts.False
	case *closure:
		if yc, ok := y.(*closure); ok {
			return ts.Bool(x == yc)
		}
		return ts.False
	case opaque:
		in.unsupported("comparison of opaque value: " + x.why)
	}
	in.unsupported(fmt.Sprintf("comparing uncomparable %T (type %v)", x, t))
	return nil
}

// eqnil: comparison where one side is the nil constant of a reference type.
func isNilValue(v value) (bool, bool) {
	switch v := v.(type) {
	case *value:
		return v == nil, true
	case []value:
		return v == nil, true
	case *smap:
		return v == nil, true
	case *schan:
		return v == nil, true
	case *ssa.Function:
		return v == nil, true
	case *closure:
		return v == nil, true
	case *ssa.Builtin:
		return false, true
	case iface:
		return v.t == nil, true
	case nil:
		return true, true
	}
	return false, false
}

// concreteKey returns a canonical string for a fully concrete comparable value.
func concreteKey(v value) (string, bool) {
	switch v := v.(type) {
	case *Term:
		if v.IsConst() {
			return fmt.Sprintf("i%d:%s", v.w, v.Big().Text(16)), true
		}
		return "", false
	case string:
		return "s" + v, true
	case symstr:
		return "", false
	case float64:
		return fmt.Sprintf("f%v", v), true
	case *value:
		return fmt.Sprintf("p%p", v), true
	case *schan:
		return fmt.Sprintf("c%p", v), true
	case structure:
		var sb strings.Builder
		sb.WriteString("{")
		for _, e := range v {
			k, ok := concreteKey(e)
			if !ok {
				return "", false
			}
			fmt.Fprintf(&sb, "%d:%s,", len(k), k)
		}
		return sb.String(), true
	case array:
		var sb strings.Builder
		sb.WriteString("[")
		for _, e := range v {
			k, ok := concreteKey(e)
			if !ok {
				return "", false
			}
			fmt.Fprintf(&sb, "%d:%s,", len(k), k)
		}
		return sb.String(), true
	case iface:
		if v.t == nil {
			return "nil", true
		}
		k, ok := concreteKey(v.v)
		if !ok {
			return "", false
		}
		return "I" + v.t.String() + "/" + k, true
	case rtype:
		return "T" + v.t.String(), true
	}
	return "", false
}

// ---------------------------------------------------------------------------
// maps: ordered entry list; concrete keys indexed; symbolic keys decided by forking

func newMap(keyT types.Type) *smap {
	return &smap{keyT: keyT, index: map[string]*mentry{}}
}

func (in *interp) mapFind(m *smap, k value) *mentry {
	if m == nil {
		return nil
	}
	ck, conc := concreteKey(k)
	if conc {
		if e, ok := m.index[ck]; ok {
			return e
		}
		if m.nsym == 0 {
			return nil
		}
	}
	for _, e := range m.entries {
		if conc {
			if _, ec := concreteKey(e.k); ec {
				continue // different concrete key
			}
		}
		c := in.equals(m.keyT, k, e.k)
		if c.IsTrue() {
			return e
		}
		if c.IsFalse() {
			continue
		}
		if in.branch(c, "map-key") {
			return e
		}
	}
	return nil
}

func (in *interp) mapInsert(m *smap, k, v value) {
	if e := in.mapFind(m, k); e != nil {
		e.v = v
		return
	}
	e := &mentry{k: copyVal(k), v: v}
	m.entries = append(m.entries, e)
	if ck, ok := concreteKey(k); ok {
		m.index[ck] = e
	} else {
		m.nsym++
	}
}

func (in *interp) mapDelete(m *smap, k value) {
	e := in.mapFind(m, k)
	if e == nil {
		return
	}
	for i, x := range m.entries {
		if x == e {
			m.entries = append(m.entries[:i:i], m.entries[i+1:]...)
			break
		}
	}
	if ck, ok := concreteKey(e.k); ok {
		delete(m.index, ck)
	} else {
		m.nsym--
	}
}

type mapIter struct {
	snap []*mentry
	m    *smap
	i    int
	ts   *TermStore
}

func (it *mapIter) next() tuple {
	for it.i < len(it.snap) {
		e := it.snap[it.i]
		it.i++
		// skip entries deleted during iteration
		alive := false
		for _, x := range it.m.entries {
			if x == e {
				alive = true
				break
			}
		}
		if alive {
			return tuple{it.ts.True, e.k, copyVal(e.v)}
		}
	}
	return tuple{it.ts.False, nil, nil}
}

type stringIter struct {
	in *interp
	s  value
	i  int
}

func (it *stringIter) next() tuple {
	s, ok := it.s.(string)
	if !ok {
		it.in.unsupported("range over symbolic string")
	}
	if it.i >= len(s) {
		return tuple{it.in.ts.False, nil, nil}
	}
	for j, r := range s[it.i:] {
		_ = j
		idx := it.i
		it.i += len(string(r))
		if r == 0xFFFD {
			it.i = idx + 1
		}
		return tuple{it.in.ts.True, it.in.ts.BVi(int64(idx), 64), it.in.ts.BVi(int64(r), 32)}
	}
	return tuple{it.in.ts.False, nil, nil}
}

func showValue(v value) string {
	switch v := v.(type) {
	case *Term:
		return showDepth(v, 4)
	case string:
		return fmt.Sprintf("%q", v)
	case symstr:
		return fmt.Sprintf("symstr(%d)", len(v))
	case structure:
		var p []string
		for _, e := range v {
			p = append(p, showValue(e))
		}
		return "{" + strings.Join(p, " ") + "}"
	case array:
		return fmt.Sprintf("array(%d)", len(v))
	case []value:
		if len(v) > 8 {
			return fmt.Sprintf("slice(%d)", len(v))
		}
		var p []string
		for _, e := range v {
			p = append(p, showValue(e))
		}
		return "[" + strings.Join(p, " ") + "]"
	case iface:
		if v.t == nil {
			return "nil-iface"
		}
		return "(" + v.t.String() + ")" + showValue(v.v)
	case *value:
		if v == nil {
			return "nil"
		}
		return fmt.Sprintf("%p", v)
	case opaque:
		return "opaque(" + v.why + ")"
	}
	return fmt.Sprintf("<%T>", v)
}

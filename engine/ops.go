package main

import (
	"fmt"
	"go/constant"
	"go/token"
	"go/types"
	"math"
	"unicode/utf8"

	"golang.org/x/tools/go/ssa"
)

func constStringVal(c *ssa.Const) string {
	if c.Value.Kind() == constant.String {
		return constant.StringVal(c.Value)
	}
	// int constant converted to string
	return string(rune(c.Int64()))
}

func (in *interp) unop(fr *frame, instr *ssa.UnOp, x value) value {
	ts := in.ts
	switch instr.Op {
	case token.ARROW: // receive
		ch, ok := x.(*schan)
		if !ok {
			in.unsupported(fmt.Sprintf("receive from %T", x))
		}
		elemT := instr.X.Type().Underlying().(*types.Chan).Elem()
		v, okv := in.chanRecv(fr, ch, elemT)
		if instr.CommaOk {
			return tuple{v, ts.Bool(okv)}
		}
		return v
	case token.SUB:
		switch x := x.(type) {
		case *Term:
			return ts.Neg(x)
		case float64:
			return -x
		case complex128:
			return -x
		}
	case token.MUL: // load
		switch p := x.(type) {
		case *value:
			if p == nil {
				in.rtPanic(fr, "invalid memory address or nil pointer dereference")
			}
			return load(deref(instr.X.Type()), p)
		case *symref:
			return in.symRead(fr, p.elems, p.idx, false)
		case opaque:
			return p
		}
	case token.NOT:
		return ts.Not(in.asTerm(x, "!"))
	case token.XOR:
		return ts.BNot(in.asTerm(x, "^"))
	}
	if o, ok := x.(opaque); ok {
		return o
	}
	panic(fmt.Sprintf("invalid unary op %s %T", instr.Op, x))
}

func (in *interp) binop(fr *frame, op token.Token, t types.Type, x, y value) value {
	ts := in.ts
	// opaque operands poison the result; only a *use* in control flow is an error
	if o, ok := x.(opaque); ok {
		return o
	}
	if o, ok := y.(opaque); ok {
		return o
	}
	switch op {
	case token.EQL, token.NEQ:
		r := in.equals(t, x, y)
		if op == token.NEQ {
			return ts.Not(r)
		}
		return r
	}
	switch xv := x.(type) {
	case *Term:
		yv := in.asTerm(y, "binop operand")
		w, signed, _ := intType(t)
		if xv.w == 0 {
			// booleans only support ==, != (handled) — &&/|| are control flow
			panic("boolean binop " + op.String())
		}
		switch op {
		case token.ADD:
			return ts.Bin(OpAdd, xv, yv)
		case token.SUB:
			return ts.Bin(OpSub, xv, yv)
		case token.MUL:
			return ts.Bin(OpMul, xv, yv)
		case token.QUO, token.REM:
			z := ts.Eq(yv, ts.BV(0, yv.w))
			if z.IsTrue() || (!z.IsFalse() && in.branch(z, "div-zero")) {
				in.rtPanic(fr, "integer divide by zero")
			}
			if signed {
				if op == token.QUO {
					return ts.Bin(OpSDiv, xv, yv)
				}
				return ts.Bin(OpSRem, xv, yv)
			}
			if op == token.QUO {
				return ts.Bin(OpUDiv, xv, yv)
			}
			return ts.Bin(OpURem, xv, yv)
		case token.AND:
			return ts.Bin(OpBAnd, xv, yv)
		case token.OR:
			return ts.Bin(OpBOr, xv, yv)
		case token.XOR:
			return ts.Bin(OpBXor, xv, yv)
		case token.AND_NOT:
			return ts.Bin(OpBAnd, xv, ts.BNot(yv))
		case token.SHL, token.SHR:
			// y may have a different width and must be non-negative if signed (the
			// SSA builder inserts the negative-shift check for signed counts)
			sh := yv
			if sh.w > xv.w {
				// counts >= width give 0 / sign fill: saturate
				big := ts.Cmp(OpULe, ts.BV(uint64(xv.w), sh.w), sh)
				sh = ts.Ite(big, ts.BV(uint64(xv.w), xv.w), ts.Extract(sh, xv.w-1, 0))
			} else if sh.w < xv.w {
				sh = ts.ZExt(sh, xv.w)
			}
			if op == token.SHL {
				return ts.Bin(OpShl, xv, sh)
			}
			if signed {
				return ts.Bin(OpAShr, xv, sh)
			}
			return ts.Bin(OpLShr, xv, sh)
		case token.LSS:
			if signed {
				return ts.Cmp(OpSLt, xv, yv)
			}
			return ts.Cmp(OpULt, xv, yv)
		case token.LEQ:
			if signed {
				return ts.Cmp(OpSLe, xv, yv)
			}
			return ts.Cmp(OpULe, xv, yv)
		case token.GTR:
			if signed {
				return ts.Cmp(OpSLt, yv, xv)
			}
			return ts.Cmp(OpULt, yv, xv)
		case token.GEQ:
			if signed {
				return ts.Cmp(OpSLe, yv, xv)
			}
			return ts.Cmp(OpULe, yv, xv)
		}
		_ = w
	case float64:
		yv, ok := y.(float64)
		if !ok {
			in.unsupported("float op with non-float")
		}
		f32 := false
		if b, ok := t.Underlying().(*types.Basic); ok && b.Kind() == types.Float32 {
			f32 = true
		}
		rnd := func(f float64) float64 {
			if f32 {
				return float64(float32(f))
			}
			return f
		}
		switch op {
		case token.ADD:
			return rnd(xv + yv)
		case token.SUB:
			return rnd(xv - yv)
		case token.MUL:
			return rnd(xv * yv)
		case token.QUO:
			return rnd(xv / yv)
		case token.LSS:
			return ts.Bool(xv < yv)
		case token.LEQ:
			return ts.Bool(xv <= yv)
		case token.GTR:
			return ts.Bool(xv > yv)
		case token.GEQ:
			return ts.Bool(xv >= yv)
		}
	case string, symstr:
		switch op {
		case token.ADD:
			if xs, ok := x.(string); ok {
				if ys, ok := y.(string); ok {
					return xs + ys
				}
			}
			return in.mkStr(append(append([]*Term{}, in.strBytes(x)...), in.strBytes(y)...))
		case token.LSS, token.LEQ, token.GTR, token.GEQ:
			lt, eq := in.strCompare(x, y)
			switch op {
			case token.LSS:
				return lt
			case token.LEQ:
				return ts.Or(lt, eq)
			case token.GTR:
				return ts.Not(ts.Or(lt, eq))
			case token.GEQ:
				return ts.Not(lt)
			}
		}
	case complex128:
		yv := y.(complex128)
		switch op {
		case token.ADD:
			return xv + yv
		case token.SUB:
			return xv - yv
		case token.MUL:
			return xv * yv
		case token.QUO:
			return xv / yv
		}
	}
	panic(fmt.Sprintf("invalid binary op: %T %s %T", x, op, y))
}

func isRefLike(v value) bool {
	switch v.(type) {
	case *value, []value, *smap, *schan, *ssa.Function, *closure, *ssa.Builtin, iface, nil:
		return true
	}
	return false
}

// strCompare returns (x<y, x==y) as terms (lexicographic byte order).
func (in *interp) strCompare(x, y value) (lt, eq *Term) {
	ts := in.ts
	if xs, ok := x.(string); ok {
		if ys, ok := y.(string); ok {
			return ts.Bool(xs < ys), ts.Bool(xs == ys)
		}
	}
	xb, yb := in.strBytes(x), in.strBytes(y)
	n := len(xb)
	if len(yb) < n {
		n = len(yb)
	}
	// from the end: result for suffix
	lt = ts.Bool(len(xb) < len(yb))
	eq = ts.Bool(len(xb) == len(yb))
	for i := n - 1; i >= 0; i-- {
		e := ts.Eq(xb[i], yb[i])
		l := ts.Cmp(OpULt, xb[i], yb[i])
		lt = ts.Or(l, ts.And(e, lt))
		eq = ts.And(e, eq)
	}
	return
}

func (in *interp) conv(fr *frame, tdst, tsrc types.Type, x value) value {
	ts := in.ts
	ud := tdst.Underlying()
	us := tsrc.Underlying()
	if o, ok := x.(opaque); ok {
		return o
	}
	switch ud := ud.(type) {
	case *types.Pointer, *types.Signature, *types.Chan, *types.Map, *types.Interface:
		return x
	case *types.Slice:
		// string -> []byte / []rune ; or slice named conversions
		switch xs := x.(type) {
		case string, symstr:
			eb, ok := ud.Elem().Underlying().(*types.Basic)
			if !ok {
				break
			}
			if eb.Kind() == types.Uint8 {
				bs := in.strBytes(xs)
				out := make([]value, len(bs))
				for i, b := range bs {
					out[i] = b
				}
				in.steps += len(bs) / 8
				return out
			}
			if eb.Kind() == types.Int32 {
				s, ok := xs.(string)
				if !ok {
					in.unsupported("[]rune of symbolic string")
				}
				var out []value
				for _, r := range s {
					out = append(out, ts.BVi(int64(r), 32))
				}
				return out
			}
		case []value:
			return xs
		}
	case *types.Basic:
		if ud.Kind() == types.UnsafePointer {
			return x
		}
		if ud.Info()&types.IsString != 0 {
			switch xv := x.(type) {
			case string, symstr:
				return xv
			case []value:
				bs := make([]*Term, len(xv))
				isRune := false
				if sl, ok := us.(*types.Slice); ok {
					if eb, ok := sl.Elem().Underlying().(*types.Basic); ok && eb.Kind() == types.Int32 {
						isRune = true
					}
				}
				if isRune {
					var out []byte
					for _, e := range xv {
						t := in.asTerm(e, "rune")
						if !t.IsConst() {
							in.unsupported("string of symbolic runes")
						}
						out = utf8.AppendRune(out, rune(t.Int()))
					}
					return string(out)
				}
				for i, e := range xv {
					bs[i] = in.asTerm(e, "byte")
				}
				in.steps += len(bs) / 8
				return in.mkStr(bs)
			case *Term:
				if !xv.IsConst() {
					in.unsupported("string(symbolic integer)")
				}
				return string(rune(xv.Int()))
			}
		}
		if w, signed, ok := basicWidth(ud); ok && w > 0 {
			switch xv := x.(type) {
			case *Term:
				_, ssigned, _ := intType(us)
				if xv.w == w {
					return xv
				}
				if xv.w > w {
					return ts.Extract(xv, w-1, 0)
				}
				if ssigned {
					return ts.SExt(xv, w)
				}
				return ts.ZExt(xv, w)
			case float64:
				if signed {
					return ts.BVi(int64(xv), w)
				}
				if xv >= 0 {
					return ts.BV(uint64(xv), w)
				}
				return ts.BVi(int64(xv), w)
			case *value: // unsafe.Pointer -> uintptr
				in.unsupported("pointer to integer conversion")
			}
		}
		if ud.Info()&types.IsFloat != 0 {
			f32 := ud.Kind() == types.Float32
			switch xv := x.(type) {
			case float64:
				if f32 {
					return float64(float32(xv))
				}
				return xv
			case *Term:
				if !xv.IsConst() {
					in.unsupported("float conversion of symbolic integer")
				}
				_, ssigned, _ := intType(us)
				var f float64
				if ssigned {
					f = float64(xv.Int())
				} else {
					f = float64(xv.Uint())
				}
				if f32 {
					f = float64(float32(f))
				}
				return f
			}
		}
		if ud.Info()&types.IsComplex != 0 {
			return x
		}
	case *types.Array, *types.Struct:
		return x
	}
	_ = math.Abs
	panic(fmt.Sprintf("unsupported conversion: %s -> %s, value %T", tsrc, tdst, x))
}

func (in *interp) callBuiltin(caller *frame, callpos token.Pos, fn *ssa.Builtin, args []value) value {
	ts := in.ts
	switch fn.Name() {
	case "append":
		if len(args) == 1 {
			return args[0]
		}
		var tail []value
		switch a := args[1].(type) {
		case string, symstr:
			for _, b := range in.strBytes(a) {
				tail = append(tail, b)
			}
		case []value:
			tail = a
		case opaque:
			in.unsupported("append of opaque: " + a.why)
		}
		base, ok := args[0].([]value)
		if !ok {
			in.unsupported(fmt.Sprintf("append to %T", args[0]))
		}
		in.steps += len(tail) / 8
		// copy aggregates so the new elements are unaliased
		out := base
		for _, e := range tail {
			out = append(out, copyVal(e))
		}
		if len(tail) == 0 && base == nil {
			return []value(nil)
		}
		return out

	case "copy":
		dst, _ := args[0].([]value)
		var n int
		switch src := args[1].(type) {
		case []value:
			n = len(src)
			if len(dst) < n {
				n = len(dst)
			}
			tmp := make([]value, n)
			for i := 0; i < n; i++ {
				tmp[i] = copyVal(src[i])
			}
			copy(dst, tmp)
		case string, symstr:
			bs := in.strBytes(src)
			n = len(bs)
			if len(dst) < n {
				n = len(dst)
			}
			for i := 0; i < n; i++ {
				dst[i] = bs[i]
			}
		default:
			in.unsupported(fmt.Sprintf("copy from %T", args[1]))
		}
		in.steps += n / 8
		return ts.BVi(int64(n), 64)

	case "close":
		ch := args[0].(*schan)
		if ch == nil {
			in.rtPanic(caller, "close of nil channel")
		}
		if ch.closed {
			in.rtPanic(caller, "close of closed channel")
		}
		ch.closed = true
		return nil

	case "delete":
		m, _ := args[0].(*smap)
		if m != nil {
			in.mapDelete(m, args[1])
		}
		return nil

	case "clear":
		switch x := args[0].(type) {
		case *smap:
			if x != nil {
				x.entries = nil
				x.index = map[string]*mentry{}
				x.nsym = 0
			}
		case []value:
			for i, e := range x {
				switch ev := e.(type) {
				case *Term:
					if ev.w == 0 {
						x[i] = ts.False
					} else {
						x[i] = ts.BV(0, ev.w)
					}
				case *value:
					x[i] = (*value)(nil)
				case string, symstr:
					x[i] = ""
				case float64:
					x[i] = float64(0)
				default:
					in.unsupported(fmt.Sprintf("clear(slice) with elements of kind %T", e))
				}
			}
		}
		return nil

	case "print", "println":
		return nil

	case "len":
		switch x := args[0].(type) {
		case string:
			return ts.BVi(int64(len(x)), 64)
		case symstr:
			return ts.BVi(int64(len(x)), 64)
		case array:
			return ts.BVi(int64(len(x)), 64)
		case *value:
			if x == nil {
				in.unsupported("len of nil array pointer")
			}
			return ts.BVi(int64(len((*x).(array))), 64)
		case []value:
			return ts.BVi(int64(len(x)), 64)
		case *smap:
			if x == nil {
				return ts.BV(0, 64)
			}
			return ts.BVi(int64(len(x.entries)), 64)
		case *schan:
			if x == nil {
				return ts.BV(0, 64)
			}
			return ts.BVi(int64(len(x.buf)), 64)
		case opaque:
			return x
		}
		panic(fmt.Sprintf("len: illegal operand: %T", args[0]))

	case "cap":
		switch x := args[0].(type) {
		case array:
			return ts.BVi(int64(cap(x)), 64)
		case *value:
			return ts.BVi(int64(len((*x).(array))), 64)
		case []value:
			return ts.BVi(int64(cap(x)), 64)
		case *schan:
			if x == nil {
				return ts.BV(0, 64)
			}
			return ts.BVi(int64(x.cap), 64)
		}
		panic(fmt.Sprintf("cap: illegal operand: %T", args[0]))

	case "min", "max":
		r := args[0]
		for _, a := range args[1:] {
			switch x := r.(type) {
			case *Term:
				y := in.asTerm(a, "min/max")
				signed := in.typeSigned(fn.Type().(*types.Signature).Params().At(0).Type())
				op := OpULt
				if signed {
					op = OpSLt
				}
				var c *Term
				if fn.Name() == "min" {
					c = ts.Cmp(op, y, x)
				} else {
					c = ts.Cmp(op, x, y)
				}
				r = ts.Ite(c, y, x)
			case float64:
				y := a.(float64)
				if fn.Name() == "min" {
					r = math.Min(x, y)
				} else {
					r = math.Max(x, y)
				}
			default:
				in.unsupported("min/max on " + fmt.Sprintf("%T", r))
			}
		}
		return r

	case "real":
		return real(args[0].(complex128))
	case "imag":
		return imag(args[0].(complex128))
	case "complex":
		return complex(args[0].(float64), args[1].(float64))

	case "panic":
		panic(targetPanic{v: args[0], site: in.siteOf(caller)})

	case "recover":
		return in.doRecover(caller)

	case "ssa:wrapnilchk":
		recv := args[0]
		if p, ok := recv.(*value); ok && p == nil {
			in.rtPanic(caller, fmt.Sprintf("value method %s.%s called using nil pointer", showValue(args[1]), showValue(args[2])))
		}
		return recv

	case "ssa:deferstack":
		return &caller.defers
	}
	panic("unknown built-in: " + fn.Name())
}

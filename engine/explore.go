package main

// Path exploration by re-execution with a recorded decision prefix, the path
// condition, assertion / reachability queries and result collection.

import (
	"fmt"
	"go/types"
	"io"
	"math/big"
	"sort"
	"strings"
	"sync"
	"time"

	"golang.org/x/tools/go/ssa"
)

type jsonBind struct {
	first *Term // the (fresh, hence unique) first byte of the message
	n     int
	obj   value
	all   []*Term // every byte (content match for concrete messages)
}

type nondetRec struct {
	name string
	t    *Term
}

type decision struct {
	chosen int
	n      int
	known  []int8 // per alternative: 0 unknown, 1 feasible, -1 infeasible
	tag    string
}

type Finding struct {
	Kind    string            `json:"kind"` // assert | panic | deadlock | exit | bigalloc
	Label   string            `json:"label"`
	Site    string            `json:"site,omitempty"`
	Msg     string            `json:"msg,omitempty"`
	Model   map[string]string `json:"model"`
	Path    int               `json:"path"`
	Checked string            `json:"checked"` // sat | unknown
	Reached []string          `json:"reached,omitempty"`
}

type Witness struct {
	Label string            `json:"label"`
	Model map[string]string `json:"model"`
	Path  int               `json:"path"`
}

type HarnessResult struct {
	ID            string             `json:"id"`
	Name          string             `json:"name"`
	Pkg           string             `json:"pkg"`
	Params        map[string]int64   `json:"params"`
	Unwind        int                `json:"unwind"`
	TimeoutMs     int                `json:"timeout_ms"`
	Paths         int                `json:"paths"`
	PathsOK       int                `json:"paths_ok"`
	Outcomes      map[string]int     `json:"outcomes"`
	Instrs        int64              `json:"instrs"`
	Findings      []*Finding         `json:"findings"`
	Witnesses     []*Witness         `json:"witnesses"`
	Inconclusive  []string           `json:"inconclusive"`
	Functions     []string           `json:"functions_encoded"`
	Stubs         []string           `json:"stubs_used"`
	Events        map[string]int     `json:"events"`
	Queries       map[string]int     `json:"queries"`
	SolverS       float64            `json:"solver_s"`
	WallS         float64            `json:"wall_s"`
	SolverErrors  []string           `json:"solver_errors,omitempty"`
	Asserts       map[string]int     `json:"asserts_checked"`
	AssertsProved map[string]int     `json:"asserts_proved"`
	UFApps        int                `json:"uf_applications"`
	MaxPC         int                `json:"max_path_condition"`
	Truncated     bool               `json:"truncated,omitempty"`
	Recovered     map[string]int     `json:"recovered_panics,omitempty"`
	Extra         map[string]float64 `json:"extra,omitempty"`
}

type interp struct {
	prog          *ssa.Program
	ts            *TermStore
	solver        *Solver
	cfg           *Config
	fninfo        map[*ssa.Function]*fnInfo
	constCache    map[*ssa.Const]value
	runtimeErrorT types.Type
	errorStringT  types.Type

	// limits
	unwind       int
	maxSteps     int
	maxDepth     int
	maxFork      int
	maxSymAlloc  int
	maxConcAlloc int
	maxPaths     int
	fmtCalls     bool
	trace        bool
	traceOut     io.Writer

	// per path state
	globals       map[*ssa.Global]*value
	pkgInit       map[*ssa.Package]bool
	inInit        int
	pc            []*Term
	pcUnknown     bool // some feasibility answer on this path was "unknown"
	nondetCount   map[string]int
	nondets       []nondetRec
	steps         int
	ufApps        map[string][]*ufApp
	ufCount       int
	onceDone      map[*value]bool
	stubCalls     map[string]int
	stubLog       []stubCallRec // per path: every by-name stub call with its arguments
	clock         int64         // per path: ticks of the concrete clock stub
	heldLocks     int           // per path: mutexes currently held by the (single) goroutine
	jsonBinds     []jsonBind
	harnessStubs  map[string][]value
	harnessCursor map[string]int // scripted harness stubs: next result group
	tickers       int
	atomicVals    map[*value]value
	lastTime      *Term
	reachedNow    []string
	recovered     []string
	params        map[string]int64

	// exploration state
	prefix      []int
	trace_      []decision
	dpos        int
	prefixKnown []int8
	knownStack  [][]int8
	model       map[*Term]*big.Int // satisfies pc[:modelLen]
	modelLen    int
	modelMemo   map[*Term]*big.Int

	// accumulated
	res        *HarnessResult
	called     map[*ssa.Function]int
	stubsUsed  map[string]int
	pathNo     int
	reachDone  map[string]bool
	findingKey map[string]bool
	deadline   time.Time
}

func (in *interp) resetPath() {
	in.globals = map[*ssa.Global]*value{}
	in.pkgInit = map[*ssa.Package]bool{}
	in.inInit = 0
	in.pc = in.pc[:0]
	in.pcUnknown = false
	in.nondetCount = map[string]int{}
	in.nondets = in.nondets[:0]
	in.steps = 0
	in.ufApps = map[string][]*ufApp{}
	in.onceDone = map[*value]bool{}
	in.stubCalls = map[string]int{}
	in.stubLog = nil
	in.clock = 0
	in.heldLocks = 0
	in.jsonBinds = nil
	in.harnessStubs = map[string][]value{}
	in.harnessCursor = map[string]int{}
	in.tickers = 0
	in.atomicVals = map[*value]value{}
	in.lastTime = nil
	in.reachedNow = nil
	in.recovered = nil
	in.dpos = 0
	in.trace_ = in.trace_[:0]
	in.model = nil
	in.modelLen = 0
}

func (in *interp) event(kind, msg string) {
	in.res.Events[kind+": "+msg]++
}

// ---------------------------------------------------------------------------
// model cache: a model of pc lets one side of a branch be taken without a query

func (in *interp) fetchModel() {
	var vars []*Term
	for _, v := range in.ts.vars {
		if in.solver.declared[v] {
			vars = append(vars, v)
		}
	}
	m, err := in.solver.Values(vars)
	if err != nil {
		in.model = nil
		return
	}
	in.model = m
	in.modelMemo = map[*Term]*big.Int{}
}

func (in *interp) modelSays(c *Term) (val bool, ok bool) {
	if in.model == nil || in.modelLen != len(in.pc) {
		return false, false
	}
	defer func() {
		if r := recover(); r != nil {
			val, ok = false, false
		}
	}()
	v := in.ts.Eval(c, in.model, in.modelMemo)
	return v.Sign() != 0, true
}

// addPC appends c to the path condition, keeping the model if it still fits.
func (in *interp) addPC(c *Term) {
	if c.IsTrue() {
		return
	}
	keep := false
	if v, ok := in.modelSays(c); ok && v {
		keep = true
	}
	in.pc = append(in.pc, c)
	if keep {
		in.modelLen = len(in.pc)
	}
	if len(in.pc) > in.res.MaxPC {
		in.res.MaxPC = len(in.pc)
	}
}

// checkWith asks whether pc ∧ c is satisfiable; on Sat it captures the model.
func (in *interp) checkWith(c *Term) SatResult {
	if time.Now().After(in.deadline) {
		panic(pathAbort{kind: "budget", msg: "harness wall-clock budget exhausted"})
	}
	r := in.solver.Check(in.pc, c)
	if r == Unknown && in.solver.FallbackMs > 0 {
		var vars []*Term
		for _, nd := range in.ts.vars {
			vars = append(vars, nd)
		}
		fr, m, who := in.solver.Fallback(in.pc, c, vars, in.solver.FallbackMs)
		if fr != Unknown {
			in.solver.NFallbackDecided++
			in.solver.NUnknown--
			in.res.Events["decided-by-fallback: "+who]++
			if fr == Sat {
				in.solver.NSat++
				in.model = m
				in.modelMemo = map[*Term]*big.Int{}
				in.modelLen = len(in.pc)
				return Sat
			}
			in.solver.NUnsat++
			return Unsat
		}
	}
	if r == Sat {
		in.fetchModel()
		if in.model != nil {
			n := len(in.pc)
			if c != nil {
				n++
			}
			_ = n
			in.modelLen = len(in.pc) // the model satisfies pc (and c)
		}
	}
	return r
}

// ---------------------------------------------------------------------------

func (in *interp) branch(c *Term, tag string) bool {
	return in.decide([]*Term{c, in.ts.Not(c)}, true, tag) == 0
}

// decide picks one of the alternatives (conditions are mutually exclusive;
// exhaustive says their disjunction is valid). Exploration order is 0..n-1.
func (in *interp) decide(conds []*Term, exhaustive bool, tag string) int {
	d := in.dpos
	in.dpos++
	n := len(conds)
	if d < len(in.prefix) {
		ch := in.prefix[d]
		if d < len(in.prefix)-1 {
			// replay
			if ch >= n {
				panic(pathAbort{kind: "engine", msg: fmt.Sprintf("nondeterministic replay: decision %d (%s) has %d alternatives, prefix wants %d", d, tag, n, ch)})
			}
			var kn []int8
			if d < len(in.knownStack) {
				kn = in.knownStack[d]
			}
			in.trace_ = append(in.trace_, decision{chosen: ch, n: n, tag: tag, known: kn})
			in.addPCReplay(conds[ch])
			return ch
		}
		// the flipped decision: alternatives before ch are exhausted
		return in.choose(conds, ch, exhaustive, tag, in.prefixKnown)
	}
	return in.choose(conds, 0, exhaustive, tag, nil)
}

func (in *interp) addPCReplay(c *Term) {
	if c.IsTrue() {
		return
	}
	in.pc = append(in.pc, c)
}

func (in *interp) choose(conds []*Term, start int, exhaustive bool, tag string, known []int8) int {
	n := len(conds)
	kn := make([]int8, n)
	copy(kn, known)
	for j := 0; j < start; j++ {
		if kn[j] == 0 {
			kn[j] = 2 // explored
		}
	}
	// what does the cached model say?
	modelAlt := -1
	for j := 0; j < n; j++ {
		if conds[j].IsFalse() {
			kn[j] = -1
			continue
		}
		if conds[j].IsTrue() && kn[j] == 0 {
			kn[j] = 1
		}
		if kn[j] == 0 && modelAlt < 0 {
			if v, ok := in.modelSays(conds[j]); ok && v {
				kn[j] = 1
				modelAlt = j
			}
		}
	}
	for j := start; j < n; j++ {
		if kn[j] == -1 {
			continue
		}
		if kn[j] != 1 {
			// last remaining alternative of an exhaustive split whose earlier ones are all infeasible
			allInfeasible := exhaustive && j == n-1 && start == 0
			if allInfeasible {
				for k := 0; k < j; k++ {
					if kn[k] != -1 {
						allInfeasible = false
					}
				}
			}
			if !allInfeasible {
				r := in.checkWith(conds[j])
				if r == Unsat {
					kn[j] = -1
					continue
				}
				if r == Unknown {
					in.pcUnknown = true
					in.res.Events["solver-unknown-at-branch: "+tag]++
				}
			}
		}
		in.trace_ = append(in.trace_, decision{chosen: j, n: n, known: kn, tag: tag})
		d := len(in.trace_) - 1
		if len(in.knownStack) > d {
			in.knownStack = in.knownStack[:d]
		}
		for len(in.knownStack) < d {
			in.knownStack = append(in.knownStack, nil)
		}
		in.knownStack = append(in.knownStack, kn)
		in.addPC(conds[j])
		return j
	}
	panic(pathAbort{kind: "infeasible"})
}

// assume adds c to the path condition (ending the path if it is infeasible).
func (in *interp) assume(c *Term) {
	if c.IsTrue() {
		return
	}
	if c.IsFalse() {
		panic(pathAbort{kind: "assume"})
	}
	if v, ok := in.modelSays(c); ok && v {
		in.addPC(c)
		return
	}
	if in.replaying() {
		in.addPCReplay(c)
		return
	}
	r := in.checkWith(c)
	if r == Unsat {
		panic(pathAbort{kind: "assume"})
	}
	if r == Unknown {
		in.pcUnknown = true
	}
	in.addPC(c)
}

// replaying: still inside the recorded prefix, where feasibility is already known.
func (in *interp) replaying() bool { return in.dpos < len(in.prefix) }

// assumeNoCheck adds a constraint that cannot make a feasible path infeasible
// (functional-consistency axioms over fresh variables).
func (in *interp) assumeNoCheck(c *Term) {
	if c.IsTrue() {
		return
	}
	in.addPC(c)
}

func (in *interp) modelStrings(m map[*Term]*big.Int) map[string]string {
	out := map[string]string{}
	for _, nd := range in.nondets {
		v := m[nd.t]
		if v == nil {
			v = new(big.Int)
		}
		out[nd.name] = v.String()
	}
	return out
}

func (in *interp) currentModel() (map[string]string, SatResult) {
	if in.model != nil && in.modelLen == len(in.pc) {
		return in.modelStrings(in.model), Sat
	}
	r := in.checkWith(nil)
	if r == Sat && in.model != nil {
		in.modelLen = len(in.pc)
		return in.modelStrings(in.model), Sat
	}
	return nil, r
}

func (in *interp) assertion(fr *frame, c *Term, label string) {
	if in.replaying() {
		in.addPCReplay(c)
		return
	}
	in.res.Asserts[label]++
	if c.IsTrue() {
		in.res.AssertsProved[label]++
		return
	}
	neg := in.ts.Not(c)
	var r SatResult
	if c.IsFalse() {
		r = Sat
		if _, rr := in.currentModel(); rr != Sat {
			r = rr
		}
	} else if v, ok := in.modelSays(neg); ok && v {
		r = Sat
	} else {
		saved, savedLen := in.model, in.modelLen
		r = in.checkWith(neg)
		if r == Sat {
			ms := in.modelStrings(in.model)
			in.addFinding(&Finding{Kind: "assert", Label: label, Site: in.siteOf(fr.caller), Model: ms, Checked: "sat"})
			in.model, in.modelLen = saved, savedLen
			in.modelMemo = map[*Term]*big.Int{}
			in.assumeAfterAssert(c)
			return
		}
		in.model, in.modelLen = saved, savedLen
		in.modelMemo = map[*Term]*big.Int{}
	}
	switch r {
	case Unsat:
		in.res.AssertsProved[label]++
	case Sat:
		in.addFinding(&Finding{Kind: "assert", Label: label, Site: in.siteOf(fr.caller), Model: in.modelStrings(in.model), Checked: "sat"})
		in.assumeAfterAssert(c)
	case Unknown:
		in.inconclusive(fmt.Sprintf("assertion %q: solver answered unknown", label))
		in.assumeAfterAssert(c)
	}
}

// after a failed/undecided assertion continue only where it holds
func (in *interp) assumeAfterAssert(c *Term) {
	if c.IsFalse() {
		panic(pathAbort{kind: "stop"})
	}
	r := in.checkWith(c)
	if r == Unsat {
		panic(pathAbort{kind: "stop"})
	}
	in.addPC(c)
}

func (in *interp) reach(label string) {
	in.reachedNow = append(in.reachedNow, label)
	if in.reachDone[label] || in.replaying() {
		return
	}
	m, r := in.currentModel()
	if r == Sat {
		in.reachDone[label] = true
		in.res.Witnesses = append(in.res.Witnesses, &Witness{Label: label, Model: m, Path: in.pathNo})
	}
}

func (in *interp) inconclusive(msg string) {
	for _, m := range in.res.Inconclusive {
		if m == msg {
			return
		}
	}
	if len(in.res.Inconclusive) < 50 {
		in.res.Inconclusive = append(in.res.Inconclusive, msg)
	}
}

func (in *interp) addFinding(f *Finding) {
	key := f.Kind + "|" + f.Label + "|" + f.Site
	if in.findingKey[key] {
		return
	}
	in.findingKey[key] = true
	f.Path = in.pathNo
	f.Reached = append([]string{}, in.reachedNow...)
	in.res.Findings = append(in.res.Findings, f)
}

// ---------------------------------------------------------------------------

// ---------------------------------------------------------------------------
// job-based exploration: a job owns the subtree below a decision prefix (at the
// prefix's last decision: the alternatives >= prefix[last]). Workers donate
// shallow unexplored alternatives to idle workers.

type job struct {
	hs     *hstate
	prefix []int
	known  []int8
}

type hstate struct {
	spec        *HarnessSpec
	fn          *ssa.Function
	start       time.Time
	deadline    time.Time
	budget      time.Duration
	mu          sync.Mutex
	parts       []*interp // one per worker that touched this harness
	paths       int64
	stopped     bool
	outstanding int
}

type pool struct {
	mu          sync.Mutex
	cond        *sync.Cond
	queue       []*job
	idle        int
	outstanding int
	nworkers    int
}

func newPool(n int) *pool {
	p := &pool{nworkers: n}
	p.cond = sync.NewCond(&p.mu)
	return p
}

func (p *pool) put(j *job) {
	p.mu.Lock()
	p.queue = append(p.queue, j)
	p.outstanding++
	j.hs.outstanding++
	p.mu.Unlock()
	p.cond.Signal()
}

func (p *pool) get() *job {
	p.mu.Lock()
	defer p.mu.Unlock()
	for len(p.queue) == 0 {
		if p.outstanding == 0 {
			p.cond.Broadcast()
			return nil
		}
		p.idle++
		p.cond.Wait()
		p.idle--
	}
	j := p.queue[0]
	p.queue = p.queue[1:]
	return j
}

func (p *pool) done(j *job) {
	p.mu.Lock()
	p.outstanding--
	j.hs.outstanding--
	if p.outstanding == 0 {
		p.cond.Broadcast()
	}
	p.mu.Unlock()
}

func (p *pool) hungry() bool {
	p.mu.Lock()
	defer p.mu.Unlock()
	return p.idle > 0 && len(p.queue) < p.idle
}

func (in *interp) initResult(h *HarnessSpec) {
	in.res = &HarnessResult{ID: h.ID, Name: h.Name, Pkg: h.Pkg, Params: h.Params, Unwind: in.unwind, TimeoutMs: in.solver.timeout,
		Outcomes: map[string]int{}, Events: map[string]int{}, Asserts: map[string]int{}, AssertsProved: map[string]int{}, Recovered: map[string]int{}}
	in.called = map[*ssa.Function]int{}
	in.stubsUsed = map[string]int{}
	in.reachDone = map[string]bool{}
	in.findingKey = map[string]bool{}
	in.params = h.Params
}

// exploreJob explores the subtree owned by j.
func (in *interp) exploreJob(j *job, p *pool) {
	hs := j.hs
	res := in.res
	in.deadline = hs.deadline
	in.prefix = j.prefix
	in.prefixKnown = j.known
	in.knownStack = in.knownStack[:0]
	root := len(j.prefix) - 1 // decisions below root are fixed
	if root < 0 {
		root = 0
	}
	donated := map[int]bool{}
	for {
		in.pathNo++
		in.resetPath()
		outcome := in.runPath(hs.fn)
		res.Outcomes[outcome]++
		res.Instrs += int64(in.steps)
		res.UFApps += in.ufCount
		in.ufCount = 0
		for _, s := range in.recovered {
			res.Recovered[s]++
		}
		if outcome == "ok" {
			res.PathsOK++
		}
		if in.trace {
			fmt.Fprintf(in.traceOut, "== path %d outcome %s decisions %v\n", in.pathNo, outcome, in.trace_)
		}
		hs.mu.Lock()
		hs.paths++
		total := hs.paths
		stopped := hs.stopped
		hs.mu.Unlock()
		hasAlt := func(d int) bool {
			if donated[d] {
				return false
			}
			dc := in.trace_[d]
			for k := dc.chosen + 1; k < dc.n; k++ {
				if dc.known == nil || k >= len(dc.known) || dc.known[k] != -1 {
					return true
				}
			}
			return false
		}
		mk := func(d int) ([]int, []int8) {
			np := make([]int, d+1)
			for i := 0; i < d; i++ {
				np[i] = in.trace_[i].chosen
			}
			np[d] = in.trace_[d].chosen + 1
			return np, in.trace_[d].known
		}
		lo := root
		if len(j.prefix) == 0 {
			lo = 0
		}
		// donate the shallowest open alternative when other workers are idle
		if p != nil && p.hungry() {
			for d := lo; d < len(in.trace_)-1; d++ {
				if hasAlt(d) {
					np, kn := mk(d)
					donated[d] = true
					p.put(&job{hs: hs, prefix: np, known: kn})
					break
				}
			}
		}
		next := -1
		for d := len(in.trace_) - 1; d >= lo; d-- {
			if hasAlt(d) {
				next = d
				break
			}
		}
		if next < 0 {
			return
		}
		if stopped || int(total) >= in.maxPaths || time.Now().After(in.deadline) {
			hs.mu.Lock()
			hs.stopped = true
			hs.mu.Unlock()
			res.Truncated = true
			in.inconclusive(fmt.Sprintf("exploration truncated (limit %d paths / %v wall clock)", in.maxPaths, hs.budget))
			return
		}
		for d := range donated {
			if d > next {
				delete(donated, d)
			}
		}
		in.prefix, in.prefixKnown = mk(next)
		if len(in.knownStack) > next {
			in.knownStack = in.knownStack[:next]
		}
	}
}

// finishResult fills in the per-worker totals.
func (in *interp) finishResult() *HarnessResult {
	res := in.res
	res.Paths = in.pathNo
	var fns []string
	for f := range in.called {
		fns = append(fns, f.String())
	}
	sort.Strings(fns)
	res.Functions = fns
	res.Stubs = sortedKeys(in.stubsUsed)
	res.Queries = map[string]int{"total": in.solver.NQueries, "sat": in.solver.NSat, "unsat": in.solver.NUnsat, "unknown": in.solver.NUnknown,
		"fallback": in.solver.NFallback, "fallback_decided": in.solver.NFallbackDecided}
	res.SolverS = in.solver.Time.Seconds()
	res.SolverErrors = in.solver.Errors
	if len(in.solver.Errors) > 0 {
		in.inconclusive("solver reported errors: " + in.solver.Errors[0])
	}
	return res
}

func mergeResults(parts []*HarnessResult) *HarnessResult {
	r := parts[0]
	fset := map[string]bool{}
	sset := map[string]bool{}
	fkey := map[string]bool{}
	wkey := map[string]bool{}
	ikey := map[string]bool{}
	out := &HarnessResult{ID: r.ID, Name: r.Name, Pkg: r.Pkg, Params: r.Params, Unwind: r.Unwind, TimeoutMs: r.TimeoutMs,
		Outcomes: map[string]int{}, Events: map[string]int{}, Asserts: map[string]int{}, AssertsProved: map[string]int{}, Recovered: map[string]int{}, Queries: map[string]int{}}
	for _, p := range parts {
		out.Paths += p.Paths
		out.PathsOK += p.PathsOK
		out.Instrs += p.Instrs
		out.UFApps += p.UFApps
		out.SolverS += p.SolverS
		if p.MaxPC > out.MaxPC {
			out.MaxPC = p.MaxPC
		}
		out.Truncated = out.Truncated || p.Truncated
		for k, v := range p.Outcomes {
			out.Outcomes[k] += v
		}
		for k, v := range p.Events {
			out.Events[k] += v
		}
		for k, v := range p.Asserts {
			out.Asserts[k] += v
		}
		for k, v := range p.AssertsProved {
			out.AssertsProved[k] += v
		}
		for k, v := range p.Recovered {
			out.Recovered[k] += v
		}
		for k, v := range p.Queries {
			out.Queries[k] += v
		}
		for _, f := range p.Functions {
			fset[f] = true
		}
		for _, f := range p.Stubs {
			sset[f] = true
		}
		for _, f := range p.Findings {
			k := f.Kind + "|" + f.Label + "|" + f.Site
			if !fkey[k] {
				fkey[k] = true
				out.Findings = append(out.Findings, f)
			}
		}
		for _, w := range p.Witnesses {
			if !wkey[w.Label] {
				wkey[w.Label] = true
				out.Witnesses = append(out.Witnesses, w)
			}
		}
		for _, m := range p.Inconclusive {
			if !ikey[m] {
				ikey[m] = true
				out.Inconclusive = append(out.Inconclusive, m)
			}
		}
		out.SolverErrors = append(out.SolverErrors, p.SolverErrors...)
	}
	for f := range fset {
		out.Functions = append(out.Functions, f)
	}
	sort.Strings(out.Functions)
	for f := range sset {
		out.Stubs = append(out.Stubs, f)
	}
	sort.Strings(out.Stubs)
	sort.Slice(out.Findings, func(i, j int) bool {
		return out.Findings[i].Label+out.Findings[i].Site < out.Findings[j].Label+out.Findings[j].Site
	})
	sort.Slice(out.Witnesses, func(i, j int) bool { return out.Witnesses[i].Label < out.Witnesses[j].Label })
	return out
}

// runPath executes the harness once along the current prefix.
func (in *interp) runPath(fn *ssa.Function) (outcome string) {
	defer func() {
		r := recover()
		if r == nil {
			return
		}
		switch p := r.(type) {
		case pathAbort:
			switch p.kind {
			case "assume", "infeasible", "stop", "blocked":
				outcome = p.kind
			case "deadlock", "exit", "bigalloc":
				outcome = p.kind
				m, sr := in.currentModelSafe()
				if sr == Sat {
					in.addFinding(&Finding{Kind: p.kind, Label: p.kind, Msg: p.msg, Site: siteFromMsg(p.msg), Model: m, Checked: "sat"})
				} else if sr == Unknown {
					in.inconclusive(p.kind + " on a path whose feasibility is unknown: " + p.msg)
				}
			default: // unwind, unsupported, budget, engine
				outcome = p.kind
				in.inconclusive(p.kind + ": " + p.msg)
			}
		case targetPanic:
			outcome = "panic"
			m, sr := in.currentModelSafe()
			msg := in.panicMsg(p.v)
			if sr == Sat {
				in.addFinding(&Finding{Kind: "panic", Label: "no-panic", Msg: msg, Site: p.site, Model: m, Checked: "sat"})
			} else if sr == Unknown {
				in.inconclusive("panic on a path whose feasibility is unknown: " + msg + " at " + p.site)
			}
		default:
			outcome = "engine"
			in.inconclusive(fmt.Sprintf("engine failure: %v", r))
		}
	}()
	in.callSSA(nil, 0, fn, nil, nil)
	return "ok"
}

func (in *interp) currentModelSafe() (m map[string]string, r SatResult) {
	defer func() {
		if x := recover(); x != nil {
			m, r = nil, Unknown
		}
	}()
	return in.currentModel()
}

func siteFromMsg(msg string) string {
	if i := strings.LastIndex(msg, " at "); i >= 0 {
		return msg[i+4:]
	}
	return ""
}

func (in *interp) panicMsg(v value) string {
	switch x := v.(type) {
	case iface:
		if x.t == nil {
			return "panic(nil)"
		}
		if s, ok := x.v.(string); ok {
			return s
		}
		if p, ok := x.v.(*value); ok && p != nil {
			if st, ok := (*p).(structure); ok && len(st) > 0 {
				if s, ok := st[0].(string); ok {
					return s
				}
			}
		}
		return "panic of type " + x.t.String()
	}
	return fmt.Sprintf("panic %T", v)
}

type stubCallRec struct {
	name string
	args []value
}

package main

// One long-lived SMT solver process per worker, SMT-LIB2 over a pipe.
// The assertion stack is kept in sync with the executor's path condition:
// one push level per asserted term, popping to the common prefix.

import (
	"bufio"
	"fmt"
	"io"
	"math/big"
	"os/exec"
	"strings"
	"time"
)

type SatResult int

const (
	Unsat SatResult = iota
	Sat
	Unknown
)

func (r SatResult) String() string { return [...]string{"unsat", "sat", "unknown"}[r] }

type Solver struct {
	ts       *TermStore
	kind     string // z3 | z3-new | cvc5
	cmd      *exec.Cmd
	in       io.WriteCloser
	out      *bufio.Reader
	stack    []*Term // currently asserted, one push level each
	declared map[*Term]bool
	timeout  int // ms per query
	// stats
	NSat, NUnsat, NUnknown, NQueries int
	NFallback, NFallbackDecided      int
	FallbackMs                       int
	Time                             time.Duration
	Errors                           []string
	NCanceled                        int
	log                              io.Writer
	dead                             bool
}

func NewSolver(ts *TermStore, kind string, timeoutMs int, log io.Writer) (*Solver, error) {
	s := &Solver{ts: ts, kind: kind, declared: map[*Term]bool{}, timeout: timeoutMs, log: log}
	if err := s.start(); err != nil {
		return nil, err
	}
	return s, nil
}

func (s *Solver) start() error {
	var cmd *exec.Cmd
	switch s.kind {
	case "z3", "":
		cmd = exec.Command("/usr/bin/z3", "-in", fmt.Sprintf("-t:%d", s.timeout))
	case "z3-new":
		cmd = exec.Command("z3-new", "-in", fmt.Sprintf("-t:%d", s.timeout))
	case "cvc5":
		cmd = exec.Command("cvc5", "--incremental", "--lang=smt2", "--produce-models", fmt.Sprintf("--tlimit-per=%d", s.timeout))
	case "cvc5-int":
		cmd = exec.Command("cvc5", "--incremental", "--lang=smt2", "--produce-models", "--solve-bv-as-int=sum", fmt.Sprintf("--tlimit-per=%d", s.timeout))
	default:
		return fmt.Errorf("unknown solver %q", s.kind)
	}
	in, err := cmd.StdinPipe()
	if err != nil {
		return err
	}
	out, err := cmd.StdoutPipe()
	if err != nil {
		return err
	}
	cmd.Stderr = cmd.Stdout
	if err := cmd.Start(); err != nil {
		return err
	}
	s.cmd, s.in, s.out = cmd, in, bufio.NewReaderSize(out, 1<<20)
	s.send("(set-option :global-declarations true)")
	s.send("(set-option :produce-models true)")
	if strings.HasPrefix(s.kind, "cvc5") {
		s.send("(set-logic ALL)")
	}
	s.stack = nil
	s.declared = map[*Term]bool{}
	for _, t := range s.ts.all {
		t.printed = false
	}
	s.dead = false
	return nil
}

func (s *Solver) Close() {
	if s.cmd != nil {
		s.in.Close()
		s.cmd.Process.Kill()
		s.cmd.Wait()
		s.cmd = nil
	}
}

func (s *Solver) send(line string) {
	if s.log != nil {
		fmt.Fprintln(s.log, line)
	}
	if _, err := io.WriteString(s.in, line+"\n"); err != nil {
		s.dead = true
	}
}

// define makes sure t (and its sub-terms) are known to the solver by name.
func (s *Solver) define(t *Term) {
	if t == nil || t.printed {
		return
	}
	// iterative post-order to survive deep DAGs
	type fr struct {
		t *Term
		i int
	}
	st := []fr{{t, 0}}
	for len(st) > 0 {
		f := &st[len(st)-1]
		x := f.t
		if x.printed {
			st = st[:len(st)-1]
			continue
		}
		if x.op == OpConst {
			x.printed = true
			st = st[:len(st)-1]
			continue
		}
		if x.op == OpVar {
			if !s.declared[x] {
				s.send(fmt.Sprintf("(declare-const %s %s)", smtSym(x.name), sortName(x.w)))
				s.declared[x] = true
			}
			x.printed = true
			st = st[:len(st)-1]
			continue
		}
		kids := [3]*Term{x.a, x.b, x.c}
		pushed := false
		for f.i < 3 {
			k := kids[f.i]
			f.i++
			if k != nil && !k.printed {
				st = append(st, fr{k, 0})
				pushed = true
				break
			}
		}
		if pushed {
			continue
		}
		s.send(fmt.Sprintf("(define-fun t%d () %s %s)", x.id, sortName(x.w), x.body()))
		x.printed = true
		st = st[:len(st)-1]
	}
}

// sync makes the solver's assertion stack equal to pc.
func (s *Solver) sync(pc []*Term) {
	n := 0
	for n < len(pc) && n < len(s.stack) && pc[n] == s.stack[n] {
		n++
	}
	if d := len(s.stack) - n; d > 0 {
		s.send(fmt.Sprintf("(pop %d)", d))
		s.stack = s.stack[:n]
	}
	for _, t := range pc[n:] {
		s.define(t)
		s.send("(push 1)")
		s.send("(assert " + t.ref() + ")")
		s.stack = append(s.stack, t)
	}
}

func (s *Solver) readLine() (string, error) {
	line, err := s.out.ReadString('\n')
	return strings.TrimSpace(line), err
}

// readSexp reads one balanced s-expression (possibly multi-line) or an atom line.
func (s *Solver) readSexp() (string, error) {
	var sb strings.Builder
	depth := 0
	started := false
	for {
		line, err := s.out.ReadString('\n')
		if err != nil && line == "" {
			return sb.String(), err
		}
		inStr := false
		for _, ch := range line {
			switch {
			case ch == '|' || ch == '"':
				inStr = !inStr
			case inStr:
			case ch == '(':
				depth++
				started = true
			case ch == ')':
				depth--
			}
		}
		sb.WriteString(line)
		if strings.TrimSpace(line) != "" {
			started = true
		}
		if started && depth <= 0 {
			return strings.TrimSpace(sb.String()), nil
		}
	}
}

// Check decides satisfiability of pc ∧ extra.
func (s *Solver) Check(pc []*Term, extra *Term) SatResult {
	t0 := time.Now()
	defer func() { s.Time += time.Since(t0) }()
	s.NQueries++
	if s.dead {
		s.Close()
		if err := s.start(); err != nil {
			s.NUnknown++
			return Unknown
		}
	}
	full := pc
	if extra != nil {
		full = append(append([]*Term{}, pc...), extra)
	}
	s.sync(full)
	s.send("(check-sat)")
	for {
		line, err := s.readLine()
		if err != nil {
			s.Errors = append(s.Errors, "solver died: "+err.Error())
			s.dead = true
			s.NUnknown++
			return Unknown
		}
		switch {
		case line == "sat":
			s.NSat++
			return Sat
		case line == "unsat":
			s.NUnsat++
			return Unsat
		case line == "unknown" || line == "timeout":
			s.NUnknown++
			return Unknown
		case strings.Contains(line, "(error") && strings.Contains(line, "canceled"):
			// the per-command timeout fired inside push/assert (seen under heavy machine load):
			// a timeout, not an encoding problem. The connection is restarted, the query is
			// undecided here and goes to the fallback solvers.
			s.NCanceled++
			s.dead = true
			s.NUnknown++
			return Unknown
		case strings.Contains(line, "(error"):
			s.Errors = append(s.Errors, line)
			// an error invalidates everything on this connection
			s.dead = true
			s.NUnknown++
			return Unknown
		case line == "":
		default:
			// warnings etc.
			if s.log != nil {
				fmt.Fprintln(s.log, "; <<", line)
			}
		}
	}
}

// Values returns the model values of the given variables after a Sat answer.
func (s *Solver) Values(vars []*Term) (map[*Term]*big.Int, error) {
	res := map[*Term]*big.Int{}
	if len(vars) == 0 {
		return res, nil
	}
	for i := 0; i < len(vars); i += 200 {
		j := i + 200
		if j > len(vars) {
			j = len(vars)
		}
		var sb strings.Builder
		sb.WriteString("(get-value (")
		for _, v := range vars[i:j] {
			sb.WriteString(v.ref())
			sb.WriteString(" ")
		}
		sb.WriteString("))")
		s.send(sb.String())
		txt, err := s.readSexp()
		if err != nil {
			return nil, err
		}
		if strings.Contains(txt, "(error") {
			s.Errors = append(s.Errors, txt)
			return nil, fmt.Errorf("get-value: %s", txt)
		}
		vals := parseValues(txt)
		if len(vals) != j-i {
			return nil, fmt.Errorf("get-value: expected %d values, got %d: %s", j-i, len(vals), txt)
		}
		for k, v := range vars[i:j] {
			res[v] = vals[k]
		}
	}
	return res, nil
}

// parseValues extracts the value part of each (name value) pair in order.
func parseValues(txt string) []*big.Int {
	var out []*big.Int
	// tokens of interest: #x.., #b.., true, false, (_ bvN W)
	i := 0
	n := len(txt)
	depth := 0
	for i < n {
		ch := txt[i]
		switch {
		case ch == '(':
			depth++
			i++
			// (_ bv123 64)
			if strings.HasPrefix(txt[i:], "_ bv") {
				j := i + 4
				k := j
				for k < n && txt[k] >= '0' && txt[k] <= '9' {
					k++
				}
				v, _ := new(big.Int).SetString(txt[j:k], 10)
				out = append(out, v)
				for k < n && txt[k] != ')' {
					k++
				}
				i = k
			}
		case ch == ')':
			depth--
			i++
		case ch == '|':
			j := strings.IndexByte(txt[i+1:], '|')
			i += j + 2
		case ch == '#' && i+1 < n && (txt[i+1] == 'x' || txt[i+1] == 'b'):
			base := 16
			if txt[i+1] == 'b' {
				base = 2
			}
			j := i + 2
			for j < n && txt[j] != ')' && txt[j] != ' ' && txt[j] != '\n' {
				j++
			}
			v, _ := new(big.Int).SetString(txt[i+2:j], base)
			out = append(out, v)
			i = j
		case depth == 2 && strings.HasPrefix(txt[i:], "true") && i > 0 && (txt[i-1] == ' ' || txt[i-1] == '\n'):
			out = append(out, big.NewInt(1))
			i += 4
		case depth == 2 && strings.HasPrefix(txt[i:], "false") && i > 0 && (txt[i-1] == ' ' || txt[i-1] == '\n'):
			out = append(out, big.NewInt(0))
			i += 5
		default:
			i++
		}
	}
	return out
}

// ---------------------------------------------------------------------------
// Fallback: a query the primary (incremental) solver could not decide is
// printed as a standalone problem and given to other back ends one-shot.

func (s *Solver) standalone(pc []*Term, extra *Term, vars []*Term, logic string) string {
	asserts := append([]*Term{}, pc...)
	if extra != nil {
		asserts = append(asserts, extra)
	}
	seen := map[*Term]bool{}
	var order []*Term
	var visit func(t *Term)
	visit = func(t *Term) {
		if t == nil || seen[t] {
			return
		}
		seen[t] = true
		visit(t.a)
		visit(t.b)
		visit(t.c)
		order = append(order, t)
	}
	for _, a := range asserts {
		visit(a)
	}
	for _, v := range vars {
		visit(v)
	}
	var sb strings.Builder
	if logic != "" {
		sb.WriteString("(set-logic " + logic + ")\n")
	}
	sb.WriteString("(set-option :produce-models true)\n")
	for _, t := range order {
		switch t.op {
		case OpConst:
		case OpVar:
			fmt.Fprintf(&sb, "(declare-const %s %s)\n", smtSym(t.name), sortName(t.w))
		default:
			fmt.Fprintf(&sb, "(define-fun t%d () %s %s)\n", t.id, sortName(t.w), t.body())
		}
	}
	for _, a := range asserts {
		sb.WriteString("(assert " + a.ref() + ")\n")
	}
	sb.WriteString("(check-sat)\n")
	return sb.String()
}

type fallbackSpec struct {
	name  string
	argv  []string
	logic string
}

var fallbacks = []fallbackSpec{
	{"cvc5-int", []string{"cvc5", "--lang=smt2", "--solve-bv-as-int=sum", "--produce-models", "--incremental"}, "ALL"},
	{"z3-new", []string{"z3-new", "-in"}, ""},
	{"cvc5", []string{"cvc5", "--lang=smt2", "--produce-models", "--incremental"}, "QF_BV"},
}

// Fallback tries the other back ends; on Sat it also returns values for vars.
func (s *Solver) Fallback(pc []*Term, extra *Term, vars []*Term, timeoutMs int) (SatResult, map[*Term]*big.Int, string) {
	for _, fb := range fallbacks {
		txt := s.standalone(pc, extra, vars, fb.logic)
		argv := append([]string{}, fb.argv...)
		if strings.HasPrefix(fb.name, "cvc5") {
			argv = append(argv, fmt.Sprintf("--tlimit-per=%d", timeoutMs))
		} else {
			argv = append(argv, fmt.Sprintf("-t:%d", timeoutMs))
		}
		if len(vars) > 0 {
			var gv strings.Builder
			gv.WriteString("(get-value (")
			for _, v := range vars {
				gv.WriteString(v.ref() + " ")
			}
			gv.WriteString("))\n")
			txt += gv.String()
		}
		t0 := time.Now()
		cmd := exec.Command(argv[0], argv[1:]...)
		cmd.Stdin = strings.NewReader(txt)
		done := make(chan struct{})
		var outb []byte
		go func() {
			outb, _ = cmd.CombinedOutput()
			close(done)
		}()
		select {
		case <-done:
		case <-time.After(time.Duration(timeoutMs+3000) * time.Millisecond):
			if cmd.Process != nil {
				cmd.Process.Kill()
			}
			<-done
		}
		s.Time += time.Since(t0)
		s.NFallback++
		out := string(outb)
		first := out
		if i := strings.IndexByte(out, '\n'); i >= 0 {
			first = out[:i]
		}
		first = strings.TrimSpace(first)
		switch first {
		case "unsat":
			if strings.Contains(out, "(error") && !strings.Contains(out[len(first):], "model") && !strings.Contains(out, "cannot get value") && !strings.Contains(out, "Cannot get") {
				continue
			}
			return Unsat, nil, fb.name
		case "sat":
			rest := out[len(first):]
			if strings.Contains(rest, "(error") {
				continue
			}
			if len(vars) == 0 {
				return Sat, map[*Term]*big.Int{}, fb.name
			}
			vals := parseValues(rest)
			if len(vals) != len(vars) {
				continue
			}
			m := map[*Term]*big.Int{}
			for i, v := range vars {
				m[v] = vals[i]
			}
			return Sat, m, fb.name
		}
	}
	return Unknown, nil, ""
}

#!/usr/bin/env python3
"""Regenerates MANIFEST.json from props/*.json (claimed checks) and the fixed property list."""
import json, os
V = os.path.dirname(os.path.abspath(__file__))
ids = [json.loads(l)["id"] for l in open(os.path.join(V, "properties.jsonl"))]
checks, na = [], []
NA_REASON = json.load(open(os.path.join(V, "props", "not_applicable.json"))) if os.path.exists(os.path.join(V, "props", "not_applicable.json")) else {}
for i in ids:
    p = os.path.join(V, "props", i + ".json")
    if not os.path.exists(p):
        na.append({"property_id": i, "reason": NA_REASON.get(i, "check not yet built; see DESIGN.md section 5")})
        continue
    d = json.load(open(p))
    checks.append({
        "property_id": i,
        "quick_cmd": "./check %s quick" % i,
        "thorough_cmd": "./check %s thorough" % i,
        "evidence_file": "evidence/%s.json" % i,
        "replay_cmd_template": "./check replay {path}",
        "engine": "gosmt",
        "level_claimed": {"category": d.get("level", "model_checking"), "text": d["level_text"], "design_ref": "DESIGN.md section 5, " + i},
        "level_note": d["level_note"],
        "technique": d.get("technique", "bounded symbolic execution of the real Go SSA (own engine gosmt) with SMT (z3 4.8.12; cvc5 int-blasting and z3 5.1 as fallbacks); every sat model replayed natively"),
    })
m = {"version": 1, "setup_cmd": "./setup.sh",
     "hooks": {"guard": "verif", "enable": "none needed: harnesses are injected by go/packages overlay (symbolic run) and go test -overlay (native replay); nothing is compiled into /repo",
               "baseline_off_cmd": "cd /repo && go test -mod=mod -vet=off -count=1 -timeout 25m ./...", "source_commits": [], "add_only": True},
     "engines": [{"name": "gosmt", "path": "engine/", "serves_properties": [c["property_id"] for c in checks],
                  "kind_free_text": "Go SSA (x/tools v0.29.0) symbolic executor written for this task: bit-vector terms, path exploration by re-execution, z3 -in pipe with cvc5/z3-new fallback, native replay via go test -overlay"}],
     "checks": checks, "not_applicable": na,
     "notes": "All checks are bounded: each evidence file states the bounds, the functions whose SSA was executed, stubs, assumptions, queries and solver time. Exit 2 = inconclusive (never success)."}
json.dump(m, open(os.path.join(V, "MANIFEST.json"), "w"), indent=1)
print("checks:", [c["property_id"] for c in checks], "na:", len(na))
